//! Analysis of one output with O1 (lexer) and O2 (reference machine).

use crate::lexer::{lex, Ins, LexError};
use crate::refvm::{KindFinding, RunError, Vm};

pub struct Analysis {
    pub lex_err: Option<LexError>,
    pub ins: Vec<Ins>,
    /// bytes after the first STOP
    pub trailing: usize,
    /// first `dis` stack error (arity / MARK / STOP); memo errors are collected separately
    pub vm_err: Option<RunError>,
    /// memo-discipline errors (the machine continues past them)
    pub memo_errs: Vec<RunError>,
    /// operand-kind findings (index of instruction, finding)
    pub findings: Vec<(usize, KindFinding)>,
    pub gets: u32,
    pub puts: u32,
    pub max_memo: usize,
    pub alias_inserts: u32,
    pub cycles: u32,
    pub max_depth: usize,
}

impl Analysis {
    pub fn op_names(&self) -> Vec<&'static str> {
        self.ins.iter().map(|i| i.op.name).collect()
    }
    pub fn dis_accepts(&self) -> bool {
        self.lex_err.is_none() && self.vm_err.is_none() && self.memo_errs.is_empty()
    }
    pub fn count(&self, name: &str) -> usize {
        self.ins.iter().filter(|i| i.op.name == name).count()
    }
}

pub fn analyze(bytes: &[u8], track_identity: bool) -> Analysis {
    let mut a = Analysis {
        lex_err: None,
        ins: Vec::new(),
        trailing: 0,
        vm_err: None,
        memo_errs: Vec::new(),
        findings: Vec::new(),
        gets: 0,
        puts: 0,
        max_memo: 0,
        alias_inserts: 0,
        cycles: 0,
        max_depth: 0,
    };
    match lex(bytes) {
        Ok(l) => {
            a.trailing = bytes.len() - l.end;
            a.ins = l.ins;
        }
        Err(e) => {
            a.lex_err = Some(e);
            return a;
        }
    }
    let mut vm = Vm::new(track_identity);
    vm.lenient_memo = true;
    for (idx, ins) in a.ins.iter().enumerate() {
        match ins.op.name {
            "GET" | "BINGET" | "LONG_BINGET" => a.gets += 1,
            "PUT" | "BINPUT" | "LONG_BINPUT" | "MEMOIZE" => a.puts += 1,
            _ => {}
        }
        let r = vm.step(ins);
        for e in vm.memo_errs.drain(..) {
            a.memo_errs.push(RunError {
                index: idx,
                pos: ins.pos,
                opcode: ins.op.name,
                err: e,
            });
        }
        match r {
            Ok(info) => {
                for f in info.findings {
                    a.findings.push((idx, f));
                }
                if info.alias_insert {
                    a.alias_inserts += 1;
                }
                if info.cycle_closed {
                    a.cycles += 1;
                }
            }
            Err(err) => {
                a.vm_err = Some(RunError {
                    index: idx,
                    pos: ins.pos,
                    opcode: ins.op.name,
                    err,
                });
                break;
            }
        }
        a.max_memo = a.max_memo.max(vm.memo.len());
        a.max_depth = a.max_depth.max(vm.stack.len());
    }
    a
}
