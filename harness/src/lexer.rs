//! O1 — independent opcode-table lexer.
//!
//! Decodes a byte string under the CPython `pickletools` opcode table
//! (`optable.rs`, generated from and re-verified against the live table) with
//! the argument readers re-implemented here, independently of the code under
//! test. Reader semantics follow `pickletools.read_*` so that the lexer and
//! `pickletools.genops` must agree on every input (checked differentially).

use crate::optable::{OpRow, OPTABLE};

#[derive(Debug, Clone, PartialEq)]
pub enum Arg {
    None,
    /// any integer-valued argument that fits i128 (uint1/2/4/8, int4, decimalnl that fit)
    Int(i128),
    /// decimal literal too large for i128 (kept as text)
    BigInt(String),
    /// INT "00"/"01"
    Bool(bool),
    Float(f64),
    /// payload byte range inside the input (strings, bytes, longs)
    Bytes(usize, usize),
    /// two newline-terminated names (GLOBAL / INST)
    Pair((usize, usize), (usize, usize)),
}

#[derive(Debug, Clone)]
pub struct Ins {
    pub pos: usize,
    pub end: usize,
    pub op: &'static OpRow,
    pub arg: Arg,
}

impl Ins {
    pub fn name(&self) -> &'static str {
        self.op.name
    }
    pub fn int(&self) -> Option<i128> {
        match self.arg {
            Arg::Int(v) => Some(v),
            Arg::Bool(b) => Some(b as i128),
            _ => None,
        }
    }
}

#[derive(Debug, Clone)]
pub struct LexError {
    pub pos: usize,
    pub opcode: Option<&'static str>,
    pub msg: String,
}

impl std::fmt::Display for LexError {
    fn fmt(&self, f: &mut std::fmt::Formatter<'_>) -> std::fmt::Result {
        write!(
            f,
            "lex error at offset {} ({}): {}",
            self.pos,
            self.opcode.unwrap_or("?"),
            self.msg
        )
    }
}

pub fn row_by_code(code: u8) -> Option<&'static OpRow> {
    // 68 rows; build a lookup once
    use std::sync::OnceLock;
    static LUT: OnceLock<[Option<&'static OpRow>; 256]> = OnceLock::new();
    let lut = LUT.get_or_init(|| {
        let mut t: [Option<&'static OpRow>; 256] = [None; 256];
        for r in OPTABLE {
            t[r.code as usize] = Some(r);
        }
        t
    });
    lut[code as usize]
}

pub fn row_by_name(name: &str) -> &'static OpRow {
    OPTABLE
        .iter()
        .find(|r| r.name == name)
        .unwrap_or_else(|| panic!("unknown opcode name {}", name))
}

struct Rd<'a> {
    b: &'a [u8],
    p: usize,
}

type R<T> = Result<T, String>;

impl<'a> Rd<'a> {
    fn take(&mut self, n: usize, what: &str) -> R<(usize, usize)> {
        if self.b.len() - self.p < n {
            return Err(format!(
                "expected {} bytes in {}, but only {} remain",
                n,
                what,
                self.b.len() - self.p
            ));
        }
        let s = self.p;
        self.p += n;
        Ok((s, self.p))
    }
    fn uint(&mut self, n: usize, what: &str) -> R<u64> {
        let (s, e) = self.take(n, what)?;
        let mut v: u64 = 0;
        for (i, &x) in self.b[s..e].iter().enumerate() {
            v |= (x as u64) << (8 * i);
        }
        Ok(v)
    }
    /// readline: up to and including '\n'; error when no newline remains
    fn line(&mut self, what: &str) -> R<(usize, usize)> {
        let rest = &self.b[self.p..];
        match rest.iter().position(|&c| c == b'\n') {
            Some(i) => {
                let s = self.p;
                self.p += i + 1;
                Ok((s, s + i))
            }
            None => Err(format!("no newline found when trying to read {}", what)),
        }
    }
}

/// python `codecs.escape_decode` validity + ascii result (pickletools read_stringnl decode=True)
fn check_escape_decode_ascii(s: &[u8]) -> R<()> {
    let mut i = 0;
    while i < s.len() {
        let c = s[i];
        if c != b'\\' {
            if c >= 0x80 {
                return Err(format!("non-ascii byte 0x{:02x} in escaped string", c));
            }
            i += 1;
            continue;
        }
        i += 1;
        if i >= s.len() {
            return Err("Trailing \\ in string".into());
        }
        let e = s[i];
        i += 1;
        match e {
            b'\n' | b'\\' | b'\'' | b'"' | b'b' | b'f' | b't' | b'n' | b'r' | b'v' | b'a' => {}
            b'0'..=b'7' => {
                let mut v = (e - b'0') as u32;
                let mut k = 0;
                while k < 2 && i < s.len() && (b'0'..=b'7').contains(&s[i]) {
                    v = v * 8 + (s[i] - b'0') as u32;
                    i += 1;
                    k += 1;
                }
                if (v & 0xff) >= 0x80 {
                    return Err("octal escape yields non-ascii".into());
                }
            }
            b'x' => {
                if i + 1 < s.len() && s[i].is_ascii_hexdigit() && s[i + 1].is_ascii_hexdigit() {
                    let h = |c: u8| (c as char).to_digit(16).unwrap();
                    let v = h(s[i]) * 16 + h(s[i + 1]);
                    i += 2;
                    if v >= 0x80 {
                        return Err("\\x escape yields non-ascii".into());
                    }
                } else {
                    return Err(format!("invalid \\x escape at position {}", i - 2));
                }
            }
            other => {
                // unknown escape: backslash and char are kept
                if other >= 0x80 {
                    return Err("non-ascii byte after backslash".into());
                }
            }
        }
    }
    Ok(())
}

fn is_py_space(c: u8) -> bool {
    // bytes.strip()/int() whitespace for bytes input: ASCII whitespace
    matches!(c, b' ' | b'\t' | b'\n' | b'\r' | 0x0b | 0x0c)
}

/// python int(bytes) base 10 grammar; returns the normalised digit string with sign
fn parse_py_int(s: &[u8]) -> R<Arg> {
    let mut a = 0;
    let mut b = s.len();
    while a < b && is_py_space(s[a]) {
        a += 1;
    }
    while b > a && is_py_space(s[b - 1]) {
        b -= 1;
    }
    let t = &s[a..b];
    let bad = || format!("invalid literal for int() with base 10: {:?}", String::from_utf8_lossy(s));
    if t.is_empty() {
        return Err(bad());
    }
    let mut i = 0;
    let mut neg = false;
    if t[0] == b'+' || t[0] == b'-' {
        neg = t[0] == b'-';
        i = 1;
    }
    if i >= t.len() {
        return Err(bad());
    }
    let mut digits = String::new();
    let mut prev_us = true; // underscore not allowed at start
    while i < t.len() {
        let c = t[i];
        if c.is_ascii_digit() {
            digits.push(c as char);
            prev_us = false;
        } else if c == b'_' {
            if prev_us {
                return Err(bad());
            }
            prev_us = true;
        } else {
            return Err(bad());
        }
        i += 1;
    }
    if prev_us {
        return Err(bad());
    }
    if digits.len() > 4300 {
        return Err("Exceeds the limit (4300 digits) for integer string conversion".into());
    }
    match digits.parse::<i128>() {
        Ok(v) => Ok(Arg::Int(if neg { -v } else { v })),
        Err(_) => Ok(Arg::BigInt(format!("{}{}", if neg { "-" } else { "" }, digits))),
    }
}

/// python float(bytes) grammar
fn parse_py_float(s: &[u8]) -> R<f64> {
    let mut a = 0;
    let mut b = s.len();
    while a < b && is_py_space(s[a]) {
        a += 1;
    }
    while b > a && is_py_space(s[b - 1]) {
        b -= 1;
    }
    let t = &s[a..b];
    let bad = || format!("could not convert string to float: {:?}", String::from_utf8_lossy(s));
    if t.is_empty() {
        return Err(bad());
    }
    let mut i = 0;
    let mut neg = false;
    if t[0] == b'+' || t[0] == b'-' {
        neg = t[0] == b'-';
        i = 1;
    }
    let rest = &t[i..];
    let lower: Vec<u8> = rest.iter().map(|c| c.to_ascii_lowercase()).collect();
    if lower == b"inf" || lower == b"infinity" {
        return Ok(if neg { f64::NEG_INFINITY } else { f64::INFINITY });
    }
    if lower == b"nan" {
        return Ok(f64::NAN);
    }
    // digitpart: digit (["_"] digit)*
    fn digitpart(t: &[u8], mut i: usize, out: &mut String) -> Option<usize> {
        let start = i;
        let mut prev_digit = false;
        while i < t.len() {
            if t[i].is_ascii_digit() {
                out.push(t[i] as char);
                prev_digit = true;
                i += 1;
            } else if t[i] == b'_' && prev_digit && i + 1 < t.len() && t[i + 1].is_ascii_digit() {
                prev_digit = false;
                i += 1;
            } else {
                break;
            }
        }
        if i == start {
            None
        } else {
            Some(i)
        }
    }
    let mut norm = String::new();
    if neg {
        norm.push('-');
    }
    let mut j = 0;
    let mut have_int = false;
    if let Some(k) = digitpart(rest, j, &mut norm) {
        j = k;
        have_int = true;
    }
    let mut have_frac = false;
    if j < rest.len() && rest[j] == b'.' {
        j += 1;
        if !have_int {
            norm.push('0');
        }
        norm.push('.');
        let before = norm.len();
        if let Some(k) = digitpart(rest, j, &mut norm) {
            j = k;
            have_frac = true;
        }
        if norm.len() == before {
            norm.push('0');
        }
    }
    if !have_int && !have_frac {
        return Err(bad());
    }
    if j < rest.len() && (rest[j] == b'e' || rest[j] == b'E') {
        j += 1;
        norm.push('e');
        if j < rest.len() && (rest[j] == b'+' || rest[j] == b'-') {
            norm.push(rest[j] as char);
            j += 1;
        }
        match digitpart(rest, j, &mut norm) {
            Some(k) => j = k,
            None => return Err(bad()),
        }
    }
    if j != rest.len() {
        return Err(bad());
    }
    norm.parse::<f64>().map_err(|_| bad())
}

/// utf-8 with python's 'surrogatepass' (encoded surrogates are accepted)
fn check_utf8_surrogatepass(s: &[u8]) -> R<()> {
    let mut i = 0;
    let n = s.len();
    while i < n {
        let c = s[i];
        let bad = |i: usize| Err(format!("'utf-8' codec can't decode byte 0x{:02x} in position {}", s[i], i));
        if c < 0x80 {
            i += 1;
        } else if (0xC2..=0xDF).contains(&c) {
            if i + 1 >= n || (s[i + 1] & 0xC0) != 0x80 {
                return bad(i);
            }
            i += 2;
        } else if (0xE0..=0xEF).contains(&c) {
            if i + 2 >= n || (s[i + 1] & 0xC0) != 0x80 || (s[i + 2] & 0xC0) != 0x80 {
                return bad(i);
            }
            if c == 0xE0 && s[i + 1] < 0xA0 {
                return bad(i);
            }
            // surrogates (ED A0..BF xx) accepted by surrogatepass
            i += 3;
        } else if (0xF0..=0xF4).contains(&c) {
            if i + 3 >= n
                || (s[i + 1] & 0xC0) != 0x80
                || (s[i + 2] & 0xC0) != 0x80
                || (s[i + 3] & 0xC0) != 0x80
            {
                return bad(i);
            }
            if c == 0xF0 && s[i + 1] < 0x90 {
                return bad(i);
            }
            if c == 0xF4 && s[i + 1] > 0x8F {
                return bad(i);
            }
            i += 4;
        } else {
            return bad(i);
        }
    }
    Ok(())
}

/// python 'raw-unicode-escape' decoding validity
fn check_raw_unicode_escape(s: &[u8]) -> R<()> {
    let mut i = 0;
    let n = s.len();
    while i < n {
        if s[i] != b'\\' {
            i += 1;
            continue;
        }
        // count backslashes
        let start = i;
        while i < n && s[i] == b'\\' {
            i += 1;
        }
        let bs = i - start;
        if bs % 2 == 0 || i >= n {
            continue;
        }
        let c = s[i];
        let count = if c == b'u' {
            4
        } else if c == b'U' {
            8
        } else {
            continue;
        };
        i += 1;
        let mut v: u64 = 0;
        for k in 0..count {
            if i + k >= n || !s[i + k].is_ascii_hexdigit() {
                return Err(format!("truncated \\{}XXXX escape at {}", c as char, start));
            }
            v = v * 16 + (s[i + k] as char).to_digit(16).unwrap() as u64;
        }
        if v > 0x10FFFF {
            return Err("\\Uxxxxxxxx out of range".into());
        }
        i += count;
    }
    Ok(())
}

const SYS_MAXSIZE: u64 = i64::MAX as u64;

fn read_arg(rd: &mut Rd, kind: &str) -> R<Arg> {
    match kind {
        "" => Ok(Arg::None),
        "uint1" => Ok(Arg::Int(rd.uint(1, "uint1")? as i128)),
        "uint2" => Ok(Arg::Int(rd.uint(2, "uint2")? as i128)),
        "uint4" => Ok(Arg::Int(rd.uint(4, "uint4")? as i128)),
        "uint8" => Ok(Arg::Int(rd.uint(8, "uint8")? as i128)),
        "int4" => Ok(Arg::Int(rd.uint(4, "int4")? as u32 as i32 as i128)),
        "float8" => {
            let (s, e) = rd.take(8, "float8")?;
            let mut a = [0u8; 8];
            a.copy_from_slice(&rd.b[s..e]);
            Ok(Arg::Float(f64::from_be_bytes(a)))
        }
        "stringnl" => {
            let (s, e) = rd.line("stringnl")?;
            let data = &rd.b[s..e];
            let q = match data.first() {
                Some(b'"') => b'"',
                Some(b'\'') => b'\'',
                _ => return Err(format!("no string quotes around {:?}", String::from_utf8_lossy(data))),
            };
            if data[data.len() - 1] != q {
                return Err(format!(
                    "string quote {:?} not found at both ends of {:?}",
                    q as char,
                    String::from_utf8_lossy(data)
                ));
            }
            if data.len() == 1 {
                // pickletools accepts a lone quote character (startswith and endswith both hold) as the
                // empty string; the unpickler itself does not. O1 follows pickletools here so that it
                // always agrees with genops; C04 flags the lone quote as "not properly quoted".
                return Ok(Arg::Bytes(s + 1, s + 1));
            }
            check_escape_decode_ascii(&data[1..data.len() - 1])?;
            Ok(Arg::Bytes(s + 1, e - 1))
        }
        "stringnl_noescape" => {
            let (s, e) = rd.line("stringnl")?;
            check_escape_decode_ascii(&rd.b[s..e])?;
            Ok(Arg::Bytes(s, e))
        }
        "stringnl_noescape_pair" => {
            let (s1, e1) = rd.line("stringnl")?;
            check_escape_decode_ascii(&rd.b[s1..e1])?;
            let (s2, e2) = rd.line("stringnl")?;
            check_escape_decode_ascii(&rd.b[s2..e2])?;
            Ok(Arg::Pair((s1, e1), (s2, e2)))
        }
        "unicodestringnl" => {
            let (s, e) = rd.line("unicodestringnl")?;
            check_raw_unicode_escape(&rd.b[s..e])?;
            Ok(Arg::Bytes(s, e))
        }
        "decimalnl_short" => {
            let (s, e) = rd.line("stringnl")?;
            let d = &rd.b[s..e];
            if d == b"00" {
                return Ok(Arg::Bool(false));
            }
            if d == b"01" {
                return Ok(Arg::Bool(true));
            }
            parse_py_int(d)
        }
        "decimalnl_long" => {
            let (s, e) = rd.line("stringnl")?;
            let mut d = &rd.b[s..e];
            if d.last() == Some(&b'L') {
                d = &d[..d.len() - 1];
            }
            parse_py_int(d)
        }
        "floatnl" => {
            let (s, e) = rd.line("stringnl")?;
            Ok(Arg::Float(parse_py_float(&rd.b[s..e])?))
        }
        "long1" => {
            let n = rd.uint(1, "long1 size")? as usize;
            let (s, e) = rd.take(n, "long1")?;
            Ok(Arg::Bytes(s, e))
        }
        "long4" => {
            let n = rd.uint(4, "long4 size")? as u32 as i32;
            if n < 0 {
                return Err(format!("long4 byte count < 0: {}", n));
            }
            let (s, e) = rd.take(n as usize, "long4")?;
            Ok(Arg::Bytes(s, e))
        }
        "string1" | "bytes1" => {
            let n = rd.uint(1, "size")? as usize;
            let (s, e) = rd.take(n, kind)?;
            Ok(Arg::Bytes(s, e))
        }
        "string4" => {
            let n = rd.uint(4, "string4 size")? as u32 as i32;
            if n < 0 {
                return Err(format!("string4 byte count < 0: {}", n));
            }
            let (s, e) = rd.take(n as usize, "string4")?;
            Ok(Arg::Bytes(s, e))
        }
        "bytes4" => {
            let n = rd.uint(4, "bytes4 size")?;
            if n > SYS_MAXSIZE {
                return Err("bytes4 byte count > sys.maxsize".into());
            }
            let (s, e) = rd.take(n as usize, "bytes4")?;
            Ok(Arg::Bytes(s, e))
        }
        "bytes8" | "bytearray8" => {
            let n = rd.uint(8, "size")?;
            if n > SYS_MAXSIZE {
                return Err(format!("{} byte count > sys.maxsize: {}", kind, n));
            }
            if n > (rd.b.len() - rd.p) as u64 {
                return Err(format!(
                    "expected {} bytes in a {}, but only {} remain",
                    n,
                    kind,
                    rd.b.len() - rd.p
                ));
            }
            let (s, e) = rd.take(n as usize, kind)?;
            Ok(Arg::Bytes(s, e))
        }
        "unicodestring1" | "unicodestring4" | "unicodestring8" => {
            let w = match kind {
                "unicodestring1" => 1,
                "unicodestring4" => 4,
                _ => 8,
            };
            let n = rd.uint(w, "size")?;
            if n > SYS_MAXSIZE {
                return Err(format!("{} byte count > sys.maxsize: {}", kind, n));
            }
            if n > (rd.b.len() - rd.p) as u64 {
                return Err(format!(
                    "expected {} bytes in a {}, but only {} remain",
                    n,
                    kind,
                    rd.b.len() - rd.p
                ));
            }
            let (s, e) = rd.take(n as usize, kind)?;
            check_utf8_surrogatepass(&rd.b[s..e])?;
            Ok(Arg::Bytes(s, e))
        }
        other => Err(format!("lexer has no reader for argument kind {:?}", other)),
    }
}

/// Result of lexing: the instructions up to and including the first STOP.
pub struct Lexed {
    pub ins: Vec<Ins>,
    /// offset just after STOP
    pub end: usize,
}

/// `pickletools.genops` semantics: decode until the first STOP. Errors:
/// unknown opcode byte, bad/truncated argument, end of input without STOP.
pub fn lex(b: &[u8]) -> Result<Lexed, LexError> {
    let mut rd = Rd { b, p: 0 };
    let mut ins = Vec::with_capacity(b.len() / 3 + 4);
    loop {
        let pos = rd.p;
        if pos >= b.len() {
            return Err(LexError {
                pos,
                opcode: None,
                msg: "pickle exhausted before seeing STOP".into(),
            });
        }
        let code = b[pos];
        rd.p += 1;
        let row = match row_by_code(code) {
            Some(r) => r,
            None => {
                return Err(LexError {
                    pos,
                    opcode: None,
                    msg: format!("at position {}, opcode 0x{:02x} unknown", pos, code),
                })
            }
        };
        let arg = match read_arg(&mut rd, row.arg) {
            Ok(a) => a,
            Err(msg) => {
                return Err(LexError {
                    pos,
                    opcode: Some(row.name),
                    msg,
                })
            }
        };
        ins.push(Ins {
            pos,
            end: rd.p,
            op: row,
            arg,
        });
        if row.name == "STOP" {
            return Ok(Lexed { ins, end: rd.p });
        }
    }
}

/// The instructions that decode before the first error (for scans that must not be blinded by a
/// later desynchronisation of the stream)
pub fn lex_lenient(b: &[u8]) -> Vec<Ins> {
    let mut rd = Rd { b, p: 0 };
    let mut ins = Vec::new();
    while rd.p < b.len() {
        let pos = rd.p;
        let Some(row) = row_by_code(b[pos]) else { break };
        rd.p += 1;
        let Ok(arg) = read_arg(&mut rd, row.arg) else { break };
        ins.push(Ins { pos, end: rd.p, op: row, arg });
        if row.name == "STOP" {
            break;
        }
    }
    ins
}

/// Lex a *prefix* (no STOP required): decode as many complete opcodes as the
/// bytes contain. Used by the step-wise simulation comparison.
pub fn lex_prefix(b: &[u8], from: usize) -> Result<Vec<Ins>, LexError> {
    let mut rd = Rd { b, p: from };
    let mut ins = Vec::new();
    while rd.p < b.len() {
        let pos = rd.p;
        let code = b[pos];
        rd.p += 1;
        let row = match row_by_code(code) {
            Some(r) => r,
            None => {
                return Err(LexError {
                    pos,
                    opcode: None,
                    msg: format!("opcode 0x{:02x} unknown", code),
                })
            }
        };
        let arg = read_arg(&mut rd, row.arg).map_err(|msg| LexError {
            pos,
            opcode: Some(row.name),
            msg,
        })?;
        ins.push(Ins {
            pos,
            end: rd.p,
            op: row,
            arg,
        });
    }
    Ok(ins)
}

#[cfg(test)]
mod tests {
    use super::*;
    #[test]
    fn ints() {
        assert!(matches!(parse_py_int(b" 12 "), Ok(Arg::Int(12))));
        assert!(matches!(parse_py_int(b"-1_0"), Ok(Arg::Int(-10))));
        assert!(parse_py_int(b"1__0").is_err());
        assert!(parse_py_int(b"").is_err());
        assert!(parse_py_int(b"12L").is_err());
    }
    #[test]
    fn floats() {
        assert!(parse_py_float(b"NaN").unwrap().is_nan());
        assert_eq!(parse_py_float(b"-inf").unwrap(), f64::NEG_INFINITY);
        assert_eq!(parse_py_float(b"1e5").unwrap(), 1e5);
        assert_eq!(parse_py_float(b".5").unwrap(), 0.5);
        assert_eq!(parse_py_float(b"5.").unwrap(), 5.0);
        assert!(parse_py_float(b".").is_err());
        assert!(parse_py_float(b"1e").is_err());
    }
}
