//! Monitors that use the hook event log: C03 (typed operands, executed and
//! offered), C11 (size knobs), C12 (reachability), C15 (rate extremes, in-generation
//! part), C17 (simulation mirrors the reference machine).

use std::collections::{BTreeMap, BTreeSet};

use pickle_fuzzer::verif::{self, kind as gk, Event, Phase, ValueKind};
use serde_json::json;

use crate::analysis::analyze;
use crate::common::*;
use crate::lexer::{lex, row_by_code, Ins};
use crate::optable::OPTABLE;
use crate::refvm::{Kind, Slot, Vm};
use crate::workload::*;
use crate::CheckOutput;

fn replay_case(prop: &str, cfg: &Config, bytes: Option<&[u8]>, msg: &str, witness: serde_json::Value) -> serde_json::Value {
    json!({
        "kind": "case",
        "property": prop,
        "config": cfg.to_json(),
        "message": msg,
        "witness": witness,
        "output_hex": bytes.map(|b| hex(&b[..b.len().min(1 << 16)])),
        "output_len": bytes.map(|b| b.len()),
    })
}

fn std_assumptions() -> Vec<String> {
    vec![
        "the verif-hooks event log reports the generator's own state at emission boundaries (hook code is additive and only reads state)".into(),
        "O1/O2 are independent of src/; verdict is about the executions of this run only".into(),
    ]
}

fn bulk<F>(n: usize, seed: u64, sp: &Space, trace: Option<verif::Config>, check: F) -> Acc
where
    F: Fn(&Config, &CaseResult, &mut Acc) + Sync,
{
    par_run(
        n,
        Acc::new,
        |i, acc| {
            let cfg = matrix_case(i, seed, sp);
            let res = run_case(&cfg, trace);
            check(&cfg, &res, acc);
        },
        |a, b| a.merge(b),
    )
}

const TYPED: [&str; 15] = [
    "APPEND", "APPENDS", "SETITEM", "SETITEMS", "ADDITEMS", "DICT", "STACK_GLOBAL", "REDUCE", "NEWOBJ", "NEWOBJ_EX",
    "BUILD", "OBJ", "DUP", "INST", "BINPERSID",
];

fn is_typed(name: &str) -> bool {
    TYPED[..13].contains(&name)
}

// ================================================================ C03

fn o2_abstract(vm: &Vm) -> u64 {
    // abstract state from the reference machine's point of view
    let tags: Vec<u8> = vm
        .stack
        .iter()
        .map(|s| match s {
            Slot::Mark => 0u8,
            Slot::Obj(i) => 1 + vm.objs[*i].kind as u8,
        })
        .collect();
    abstract_state(&tags, vm.memo.len())
}

pub fn check_c03(cfg: &Config, res: &CaseResult, acc: &mut Acc) {
    acc.evaluations += 1;
    let Outcome::Ok(bytes) = &res.outcome else {
        acc.count("generation_failed_not_judged_here", 1);
        return;
    };
    let a = analyze(bytes, false);
    if a.lex_err.is_some() {
        acc.count("undecodable_outputs_not_judged_here", 1);
        return;
    }
    // (a) executed typed opcodes
    for i in &a.ins {
        if is_typed(i.op.name) {
            acc.count(&format!("executed_{}", i.op.name), 1);
        }
    }
    if let Some((idx, f)) = a.findings.first() {
        let ins = &a.ins[*idx];
        let msg = format!("{} at offset {}: {}", f.opcode, ins.pos, f.msg);
        acc.violate(Violation {
            property: "C03".into(),
            signature: format!("C03:executed:{}:P{}", f.opcode, cfg.proto),
            message: format!("{} [{}]", msg, cfg.short()),
            replay: replay_case("C03", cfg, Some(bytes), &msg, json!({"offset": ins.pos, "opcode_index": idx, "layer": "executed"})),
        });
    }
    let h = hash128(bytes);
    acc.ins_distinct(h);
    if a.ins.iter().any(|i| is_typed(i.op.name)) {
        acc.ins_nontrivial(h);
        if acc.samples.len() < 3 && a.ins.iter().filter(|i| is_typed(i.op.name) && i.op.name != "DUP").count() >= 2 {
            acc.sample(sample_of(cfg, bytes, &a.op_names()));
        }
    }
    // (b) offered typed opcodes at every Choice event (reference state of the bytes so far)
    if res.events.is_empty() || a.vm_err.is_some() {
        return;
    }
    let input = match &cfg.entropy {
        Entropy::Bytes(b) => Some(b),
        _ => None,
    };
    let mut vm = Vm::new(false);
    vm.lenient_memo = true;
    let mut next = 0usize;
    let mut choice_no = 0usize;
    let mut confirm_budget = 2;
    for ev in &res.events {
        let Event::Choice { valid, entropy_left, out_len } = ev else { continue };
        while next < a.ins.len() && a.ins[next].end <= *out_len {
            if vm.step(&a.ins[next]).is_err() {
                return;
            }
            next += 1;
        }
        let st = o2_abstract(&vm);
        for (j, code) in valid.iter().enumerate() {
            let Some(row) = row_by_code(*code) else { continue };
            if !is_typed(row.name) {
                continue;
            }
            acc.count(&format!("offered_{}", row.name), 1);
            // distinct abstract states in which it was offered
            acc.ins_distinct(((st as u128) << 8 | *code as u128) | (1u128 << 127));
            let pre = vm.kind_preconditions(row.name);
            let arity = vm.stack_precondition(row);
            if pre.is_empty() && arity.is_none() {
                continue;
            }
            acc.count("offered_illegal_candidates", 1);
            acc.count(&format!("offered_illegal_{}", row.name), 1);
            // confirm with a concrete witness: steer the choice byte to this opcode
            let (Some(inp), Some(left)) = (input, entropy_left) else {
                acc.count("offered_illegal_unconfirmable_prng_mode", 1);
                continue;
            };
            if confirm_budget == 0 {
                continue;
            }
            confirm_budget -= 1;
            let consumed = inp.len() - left;
            let mut ninp = inp[..consumed].to_vec();
            ninp.extend(choice_byte(j, valid.len()));
            ninp.extend(filler(2, st));
            let ncfg = Config {
                entropy: Entropy::Bytes(ninp),
                ..cfg.clone()
            };
            let nres = run_case(&ncfg, None);
            if let Outcome::Ok(nb) = &nres.outcome {
                let na = analyze(nb, false);
                let hit = na
                    .findings
                    .iter()
                    .find(|(_, f)| f.opcode == row.name)
                    .map(|(i, f)| (na.ins[*i].pos, f.msg.clone()))
                    .or_else(|| na.vm_err.as_ref().filter(|e| e.opcode == row.name).map(|e| (e.pos, e.err.to_string())));
                if let Some((pos, m)) = hit {
                    let msg = format!(
                        "{} was offered at choice #{} in a state where the reference machine forbids it, and steering to it yields: {} at offset {}",
                        row.name, choice_no, m, pos
                    );
                    acc.violate(Violation {
                        property: "C03".into(),
                        signature: format!("C03:offered:{}:P{}", row.name, cfg.proto),
                        message: format!("{} [{}]", msg, ncfg.short()),
                        replay: replay_case("C03", &ncfg, Some(nb), &msg, json!({"offset": pos, "layer": "offered+steered"})),
                    });
                } else {
                    acc.count("offered_illegal_not_confirmed_by_steering", 1);
                }
            }
        }
        choice_no += 1;
    }
}

/// W5 object-heavy policy: take a typed opcode whenever one is offered, otherwise build the
/// operands they need (callables, tuples, dicts, strings, marks, containers)
pub fn object_heavy(base: &Config, salt: u64) -> Config {
    let mut rng = Rng::new(salt);
    let steps = 10 + rng.below(50) as usize;
    // recipes: operand set-ups followed by the typed opcode that consumes them
    const RECIPES: [&[&str]; 75] = [
        // containers that hold a float (NaN with saturated entropy) and are then stored into themselves
        &["MARK", "BINFLOAT", "LIST", "DUP", "APPEND"],
        &["MARK", "FLOAT", "LIST", "DUP", "TUPLE1", "APPEND"],
        &["MARK", "NONE", "BINFLOAT", "DICT", "DUP", "NONE", "SETITEM"],
        &["EMPTY_LIST", "BINFLOAT", "APPEND", "DUP", "APPEND"],
        // two MARKs directly on top of each other above a container
        &["EMPTY_SET", "MARK", "MARK", "NONE", "ADDITEMS"],
        &["EMPTY_LIST", "MARK", "MARK", "NONE", "APPENDS"],
        &["EMPTY_DICT", "MARK", "MARK", "NONE", "NONE", "SETITEMS"],
        &["EMPTY_SET", "MARK", "NONE", "MARK", "NONE", "ADDITEMS", "ADDITEMS"],
        // what sits on the stack after BUILD must still be the object, not its state
        &["GLOBAL", "EMPTY_TUPLE", "REDUCE", "EMPTY_DICT", "BUILD", "NONE", "NONE", "SETITEM"],
        &["GLOBAL", "GLOBAL", "EMPTY_TUPLE", "REDUCE", "EMPTY_TUPLE", "BUILD", "REDUCE"],
        &["GLOBAL", "EMPTY_TUPLE", "NEWOBJ", "EMPTY_DICT", "BUILD", "EMPTY_DICT", "BUILD", "NONE", "TUPLE1", "BUILD"],
        // an alias that travels through the memo: the memo holds a (shallow) copy of a tuple that
        // contains the container, and GET brings it back above the container's MARK
        &["EMPTY_LIST", "DUP", "TUPLE1", "MEMOIZE", "POP", "MARK", "BINGET", "APPENDS"],
        &["EMPTY_LIST", "DUP", "TUPLE1", "BINPUT", "POP", "MARK", "BINGET", "APPENDS"],
        &["EMPTY_DICT", "DUP", "TUPLE1", "BINPUT", "POP", "MARK", "NONE", "BINGET", "SETITEMS"],
        &["EMPTY_DICT", "DUP", "TUPLE1", "PUT", "POP", "MARK", "GET", "NONE", "SETITEMS"],
        &["EMPTY_SET", "DUP", "TUPLE1", "MEMOIZE", "POP", "MARK", "BINGET", "ADDITEMS"],
        &["EMPTY_LIST", "DUP", "TUPLE1", "PUT", "POP", "GET", "APPEND"],
        // aliases made by DUP and stored back into the object itself, directly or through tuples
        &["GLOBAL", "EMPTY_TUPLE", "REDUCE", "DUP", "TUPLE1", "BUILD"],
        &["GLOBAL", "EMPTY_TUPLE", "REDUCE", "DUP", "NONE", "TUPLE2", "BUILD"],
        &["EMPTY_LIST", "DUP", "TUPLE1", "APPEND"],
        &["EMPTY_LIST", "DUP", "NONE", "APPEND", "APPEND"],
        &["EMPTY_DICT", "DUP", "TUPLE1", "NONE", "SETITEM"],
        &["MARK", "NONE", "INST", "DUP", "TUPLE1", "TUPLE1", "BUILD"],
        &["EMPTY_LIST", "MEMOIZE", "DUP", "TUPLE1", "APPEND", "BINGET"],
        &["GLOBAL", "EMPTY_TUPLE", "EMPTY_DICT", "NEWOBJ_EX"],
        &["GLOBAL", "NONE", "TUPLE1", "EMPTY_DICT", "NEWOBJ_EX"],
        &["GLOBAL", "EMPTY_TUPLE", "NEWOBJ"],
        &["GLOBAL", "EMPTY_TUPLE", "REDUCE"],
        &["GLOBAL", "MARK", "NONE", "TUPLE", "REDUCE", "EMPTY_DICT", "BUILD"],
        &["GLOBAL", "EMPTY_TUPLE", "REDUCE", "NONE", "TUPLE1", "BUILD"],
        &["MARK", "NONE", "INST", "MARK", "NONE", "NONE", "DICT", "BUILD"],
        &["MARK", "GLOBAL", "NONE", "OBJ"],
        &["MARK", "GLOBAL", "OBJ"],
        &["MARK", "NONE", "INST"],
        &["EMPTY_LIST", "MARK", "NONE", "NONE", "APPENDS"],
        &["MARK", "LIST", "NONE", "APPEND"],
        &["EMPTY_DICT", "MARK", "NONE", "NONE", "SETITEMS"],
        &["EMPTY_DICT", "NONE", "NONE", "SETITEM"],
        &["EMPTY_SET", "MARK", "NONE", "ADDITEMS"],
        &["SHORT_BINUNICODE", "SHORT_BINUNICODE", "STACK_GLOBAL", "EMPTY_TUPLE", "REDUCE"],
        &["BINUNICODE", "UNICODE", "STACK_GLOBAL"],
        &["PERSID", "BINPERSID", "STACK_GLOBAL"],
        &["MARK", "NONE", "NONE", "NONE", "NONE", "DICT"],
        &["EMPTY_LIST", "DUP", "APPEND"],
        &["EMPTY_LIST", "MEMOIZE", "POP", "BINGET", "NONE", "APPEND"],
        &["EMPTY_DICT", "PUT", "GET", "NONE", "NONE", "SETITEM"],
        // one object stored into the memo twice (through an alias, or back to back), then another store:
        // every store takes a fresh key on the real machine
        &["NONE", "DUP", "MEMOIZE", "POP", "MEMOIZE", "BINPUT", "MEMOIZE"],
        &["EMPTY_LIST", "DUP", "MEMOIZE", "APPEND", "MEMOIZE", "LONG_BINPUT"],
        &["EMPTY_LIST", "DUP", "BINPUT", "POP", "BINPUT", "BINPUT"],
        &["NONE", "DUP", "PUT", "POP", "PUT", "PUT"],
        &["EMPTY_DICT", "MEMOIZE", "MEMOIZE", "BINPUT", "PUT"],
        &["EMPTY_TUPLE", "BINPUT", "DUP", "LONG_BINPUT", "POP", "BINPUT"],
        &["NONE", "MEMOIZE", "DUP", "TUPLE2", "MEMOIZE", "BINGET", "MEMOIZE", "BINPUT"],
        &["EMPTY_SET", "DUP", "MEMOIZE", "POP", "MARK", "NONE", "ADDITEMS", "MEMOIZE", "MEMOIZE"],
        // a value that went through the memo must come back as the kind it had: typed opcodes on
        // what GET pushes (frozenset is not a set, tuple is not a list, bytes is not a bytearray)
        &["MARK", "FROZENSET", "MEMOIZE", "BINGET", "MARK", "NONE", "ADDITEMS"],
        &["MARK", "NONE", "FROZENSET", "BINPUT", "POP", "BINGET", "MARK", "NONE", "ADDITEMS"],
        &["MARK", "NONE", "TUPLE", "BINPUT", "BINGET", "NONE", "APPEND"],
        &["EMPTY_TUPLE", "PUT", "POP", "GET", "MARK", "NONE", "APPENDS"],
        &["MARK", "NONE", "NONE", "DICT", "MEMOIZE", "POP", "BINGET", "NONE", "NONE", "SETITEM"],
        &["SHORT_BINBYTES", "MEMOIZE", "BINGET", "READONLY_BUFFER"],
        &["SHORT_BINBYTES", "DUP", "STACK_GLOBAL"],
        &["BINBYTES", "SHORT_BINBYTES", "STACK_GLOBAL", "EMPTY_TUPLE", "REDUCE"],
        // containers with several members of different kinds under a typed opcode (anything that
        // iterates the simulated dict / set must not let its order decide)
        &["GLOBAL", "EMPTY_TUPLE", "EMPTY_DICT", "SHORT_BINUNICODE", "NONE", "SETITEM", "NONE", "NONE", "SETITEM", "BININT1", "NONE", "SETITEM", "NEWOBJ_EX"],
        &["GLOBAL", "EMPTY_TUPLE", "EMPTY_DICT", "MARK", "BINUNICODE", "NONE", "NONE", "NONE", "BININT1", "NONE", "BINFLOAT", "NONE", "SETITEMS", "NEWOBJ_EX"],
        &["GLOBAL", "EMPTY_TUPLE", "MARK", "NONE", "NONE", "UNICODE", "NONE", "INT", "NONE", "DICT", "NEWOBJ_EX"],
        &["GLOBAL", "EMPTY_TUPLE", "REDUCE", "MARK", "UNICODE", "NONE", "NONE", "NONE", "INT", "NONE", "DICT", "BUILD"],
        &["EMPTY_SET", "MARK", "NONE", "BININT1", "SHORT_BINUNICODE", "BINFLOAT", "NEWTRUE", "ADDITEMS", "MARK", "NONE", "ADDITEMS", "MEMOIZE"],
        &["MARK", "NONE", "INT", "UNICODE", "FLOAT", "FROZENSET", "DUP", "TUPLE2", "MEMOIZE"],
        // an alias of container X travels through the memo into an operand of an object (kwargs,
        // args, state, OBJ group), and the object is then stored into X: every edge an object
        // keeps must be one the cycle guard follows
        &["EMPTY_LIST", "DUP", "TUPLE1", "MEMOIZE", "POP", "GLOBAL", "EMPTY_TUPLE", "EMPTY_DICT", "NONE", "BINGET", "SETITEM", "NEWOBJ_EX", "APPEND"],
        &["EMPTY_LIST", "DUP", "TUPLE1", "BINPUT", "POP", "GLOBAL", "EMPTY_TUPLE", "EMPTY_DICT", "NONE", "BINGET", "SETITEM", "NEWOBJ_EX", "APPEND"],
        &["EMPTY_DICT", "DUP", "TUPLE1", "BINPUT", "POP", "NONE", "GLOBAL", "EMPTY_TUPLE", "EMPTY_DICT", "NONE", "BINGET", "SETITEM", "NEWOBJ_EX", "SETITEM"],
        &["EMPTY_LIST", "DUP", "TUPLE1", "BINPUT", "POP", "GLOBAL", "BINGET", "NEWOBJ", "APPEND"],
        &["EMPTY_LIST", "DUP", "TUPLE1", "BINPUT", "POP", "GLOBAL", "BINGET", "REDUCE", "APPEND"],
        &["EMPTY_LIST", "DUP", "TUPLE1", "BINPUT", "POP", "MARK", "GLOBAL", "BINGET", "OBJ", "APPEND"],
        &["EMPTY_LIST", "DUP", "TUPLE1", "BINPUT", "POP", "GLOBAL", "EMPTY_TUPLE", "REDUCE", "BINGET", "BUILD", "APPEND"],
    ];
    let mut queue: Vec<u8> = Vec::new();
    // a third of the cases draw their arguments from saturated (all-0xFF) entropy: NaN floats, -1 ints
    let filler_kind = if salt % 3 == 0 { 1 } else { 2 };
    steer(base, steps, filler_kind, salt, |_d, p| {
        let pos = |c: u8| p.valid.iter().position(|v| *v == c);
        loop {
            if let Some(&want) = queue.first() {
                if let Some(j) = pos(want) {
                    queue.remove(0);
                    return j;
                }
                // not offered in this state / protocol: abandon the recipe
                queue.clear();
            }
            if rng.below(100) < 15 {
                return rng.below(p.valid.len() as u64) as usize;
            }
            let r = RECIPES[rng.below(RECIPES.len() as u64) as usize];
            queue = r.iter().map(|n| crate::lexer::row_by_name(n).code).collect();
            if pos(queue[0]).is_none() {
                queue.clear();
                return rng.below(p.valid.len() as u64) as usize;
            }
        }
    })
}

/// run `n` object-heavy steered cases through `check` (with the full trace)
pub fn steered_block<F>(n: usize, seed: u64, flags: bool, check: &F) -> Acc
where
    F: Fn(&Config, &CaseResult, &mut Acc) + Sync,
{
    par_run(
        n,
        Acc::new,
        |i, acc| {
            let proto = (i % 6) as u8;
            let base = Config {
                ext: flags && i % 2 == 0,
                buf: flags && i % 4 < 2,
                ..Config::default_for(proto, Entropy::Bytes(vec![]))
            };
            let cfg = object_heavy(&base, mix(seed ^ 0x0B1EC7, i as u64));
            let res = run_case(&cfg, Some(trace_cfg()));
            check(&cfg, &res, acc);
            acc.count("steered_object_heavy_cases", 1);
        },
        |a, b| a.merge(b),
    )
}

/// integer emissions whose value sits at the edge of an encoding width (+-2^7, 2^8, 2^15, 2^16, 2^23,
/// 2^24, 2^31, 2^32 and their neighbours), each followed by further argument-carrying opcodes so
/// that a wrong length or count shows in what decodes next
pub fn int_edge_block<F>(n: usize, seed: u64, check: &F) -> Acc
where
    F: Fn(&Config, &CaseResult, &mut Acc) + Sync,
{
    const INTS: [u8; 7] = [b'I', b'J', b'K', b'M', b'L', 0x8a, 0x8b];
    par_run(
        n,
        Acc::new,
        |i, acc| {
            let proto = (5 - i % 6) as u8;
            let base = Config {
                mutators: if i % 4 == 3 { vec![Mk::Boundary, Mk::Offbyone] } else { vec![] },
                rate: 0.5,
                ..Config::default_for(proto, Entropy::Bytes(vec![]))
            };
            let mut rng = Rng::new(mix(seed ^ 0x1E06, i as u64));
            let cfg = steer(&base, 10, 3, mix(seed ^ 0x1E07, i as u64), |_d, p| {
                let offered: Vec<usize> = (0..p.valid.len()).filter(|k| INTS.contains(&p.valid[*k])).collect();
                if offered.is_empty() {
                    0
                } else {
                    offered[rng.below(offered.len() as u64) as usize]
                }
            });
            let res = run_case(&cfg, Some(trace_cfg()));
            check(&cfg, &res, acc);
            acc.count("integer_edge_value_cases", 1);
        },
        |a, b| a.merge(b),
    )
}

/// long pickles (more than 256 memo entries; protocols 1-5 and 0) through `check`
pub fn long_block<F>(n: usize, seed: u64, trace: verif::Config, check: &F) -> Acc
where
    F: Fn(&Config, &CaseResult, &mut Acc) + Sync,
{
    par_run(
        n,
        Acc::new,
        |i, acc| {
            let mut rng = Rng::new(mix(seed ^ 0x10_96, i as u64));
            let muts = match i % 4 {
                0 => vec![],
                1 => vec![Mk::Memoindex],
                2 => vec![Mk::Offbyone, Mk::Stringlen],
                _ => subset(rng.below(128) as u32),
            };
            let t = 5000 + rng.below(2500) as usize;
            let cfg = Config {
                min: t,
                max: t + 200,
                mutators: muts,
                rate: [0.1, 0.5, 1.0][i % 3],
                ext: i % 5 == 0,
                buf: i % 7 == 0,
                order: (i % 3) as u8,
                ..Config::default_for((5 - i % 6) as u8, Entropy::Seed(rng.next()))
            };
            let res = run_case(&cfg, Some(trace));
            check(&cfg, &res, acc);
            acc.count("long_pickles_5000_plus_opcodes", 1);
        },
        |a, b| a.merge(b),
    )
}

/// deep-state block: one opcode chosen greedily (backed by an opener) for thousands of steps, so
/// that thousands of MARKs are pending / the stack is thousands deep / the memo has thousands of
/// entries when the collapse tail starts. `sizes` = opcode counts; the mandatory cases (MARK, DUP,
/// pushes, memo writers per protocol) run at every size, `n_sampled` (X, Y) pairs at the first.
pub fn deep_block<F>(n_sampled: usize, seed: u64, trace: verif::Config, sizes: &[usize], check: &F) -> Acc
where
    F: Fn(&Config, &CaseResult, &mut Acc) + Sync,
{
    let mandatory: [(u8, u8); 10] = [
        (b'(', b'N'),
        (b'2', b'N'),
        (b'N', b'('),
        (0x94, b'N'),
        (b'q', b'N'),
        (b'p', b'N'),
        (b']', b'('),
        (0x85, b'N'),
        (b'a', b'2'),
        (b't', b'('),
    ];
    let pairs = deep_pairs();
    // (proto, x, y, steps); x == 0 marks a cycle case with y = index into DEEP_CYCLES
    let mut cases: Vec<(u8, u8, u8, usize)> = Vec::new();
    for &t in sizes {
        for proto in 0..6u8 {
            for &(x, y) in &mandatory {
                cases.push((proto, x, y, t));
            }
        }
    }
    for proto in 0..6u8 {
        for c in 0..DEEP_CYCLES.len() {
            cases.push((proto, 0, c as u8, sizes[0]));
        }
    }
    let mut rng = Rng::new(seed ^ 0xDEE9);
    for i in 0..n_sampled {
        let (x, y) = pairs[rng.below(pairs.len() as u64) as usize];
        cases.push(((5 - i % 6) as u8, x, y, sizes[0]));
    }
    par_run_stack(
        1 << 30,
        cases.len(),
        Acc::new,
        |i, acc| {
            let (proto, x, y, t) = cases[i];
            let base = Config {
                ext: i % 2 == 0,
                buf: i % 3 == 0,
                ..Config::default_for(proto, Entropy::Bytes(vec![]))
            };
            let st = if x == 0 {
                acc.count("deep_cycle_cases", 1);
                steer_long(&base, t, i % 2 == 1, 64, cycle_policy(DEEP_CYCLES[y as usize]))
            } else {
                steer_long(&base, t, i % 2 == 1, 48, greedy_policy(x, y))
            };
            let res = run_case(&st.cfg, Some(trace));
            acc.count("deep_cases", 1);
            acc.count("deep_steering_runs", st.runs as u64);
            acc.count("deep_steps_following_policy", st.matched as u64);
            if st.complete {
                acc.count("deep_cases_steered_to_the_end", 1);
            }
            if let Outcome::Ok(b) = &res.outcome {
                if let Ok(lx) = lex(b) {
                    let x = if x == 0 { DEEP_CYCLES[y as usize][0] } else { x };
                    let nx = lx.ins.iter().filter(|k| k.op.code == x).count();
                    acc.max("max_deep_occurrences_of_one_opcode", nx as u64);
                    if nx > 4096 {
                        acc.count("deep_cases_one_opcode_over_4096_times", 1);
                    }
                    let marks = lx.ins.iter().filter(|k| k.op.code == b'(').count();
                    acc.max("max_deep_marks_in_one_pickle", marks as u64);
                }
            }
            check(&st.cfg, &res, acc);
        },
        |a, b| a.merge(b),
    )
}

pub fn c03(thorough: bool, seed: u64) -> CheckOutput {
    let n = if thorough { 600_000 } else { 40_000 };
    let sp = Space::safe();
    let tr = verif::Config {
        snapshots: false,
        choices: true,
        step_limit: 0,
    };
    let mut acc = bulk(n, seed, &sp, Some(tr), check_c03);
    let (ex_depth, max_depth, budget) = if thorough { (4, 18, 60_000_000u64) } else { (3, 10, 2_400_000u64) };
    let mut explore_json = vec![];
    for proto in 0..6u8 {
        for filler_kind in [0u8, 2u8] {
            let base = Config {
                ext: filler_kind == 2,
                buf: filler_kind == 2,
                ..Config::default_for(proto, Entropy::Bytes(vec![]))
            };
            let st = explore(&base, filler_kind, ex_depth, max_depth, budget / 12, &mut acc, &check_c03);
            explore_json.push(json!({"proto": proto, "filler": filler_kind, "runs": st.runs,
                "levels": st.levels, "abstract_states": st.abstract_states, "max_depth": st.max_depth}));
        }
    }
    let st = steered_block(if thorough { 60_000 } else { 6_000 }, seed, true, &check_c03);
    acc.merge(st);
    let lb = long_block(if thorough { 2400 } else { 240 }, seed, tr, &check_c03);
    acc.merge(lb);
    let deep = deep_block(if thorough { 1500 } else { 150 }, seed, tr, &[4200], &check_c03);
    acc.merge(deep);
    let min_exec = if thorough { 1000 } else { 50 };
    for name in &TYPED[..13] {
        if acc.get(&format!("executed_{}", name)) < min_exec {
            acc.inconclusive.push(format!("typed opcode {} executed fewer than {} times", name, min_exec));
        }
    }
    if acc.get("offered_illegal_unconfirmable_prng_mode") > 0 {
        acc.inconclusive.push(format!(
            "{} typed opcodes were offered in a state where the reference machine forbids them, in PRNG-mode cases that cannot be steered",
            acc.get("offered_illegal_unconfirmable_prng_mode")
        ));
    }
    // the "distinct" set was also used to count (state, opcode) pairs: split them
    let offered_pairs = acc.distinct.iter().filter(|h| *h >> 127 == 1).count();
    acc.distinct.retain(|h| h >> 127 == 0);
    CheckOutput {
        acc,
        rule: "cases = safe configuration matrix + every opcode-choice sequence up to the exhaustive depth and abstract-state BFS beyond (fuzzer-bytes steering); each typed opcode is checked where executed (returned bytes) and where offered (candidate list vs reference state; confirmed by steering to it); distinct = distinct output bytes; non-trivial = output executes at least one typed opcode".into(),
        extra: json!({"decision_tree": explore_json, "distinct_offered_state_opcode_pairs": offered_pairs}),
        assumptions: std_assumptions(),
        exhaustive: None,
    }
}

// ================================================================ C17

fn compatible(gen_tag: u8, slot: Slot, vm: &Vm) -> bool {
    match slot {
        Slot::Mark => gen_tag == gk::MARK,
        Slot::Obj(i) => {
            if gen_tag == gk::MARK {
                return false;
            }
            let k = vm.objs[i].kind;
            if k == Kind::Any || gen_tag == gk::ANY {
                return true;
            }
            match gen_tag {
                gk::LIST => k == Kind::List,
                gk::DICT => k == Kind::Dict,
                gk::SET => k == Kind::Set,
                gk::FROZENSET => k == Kind::FrozenSet,
                gk::TUPLE => k == Kind::Tuple,
                gk::STRING => matches!(k, Kind::Str | Kind::StrOrBytes),
                gk::BYTES => matches!(k, Kind::Bytes | Kind::StrOrBytes | Kind::Buffer),
                gk::BYTEARRAY => matches!(k, Kind::ByteArray | Kind::Buffer),
                gk::INT => k == Kind::Int,
                gk::BOOL => matches!(k, Kind::Bool | Kind::Int),
                gk::FLOAT => k == Kind::Float,
                gk::NONE => k == Kind::None,
                gk::GLOBAL | gk::CALLABLE => k == Kind::Global,
                gk::INSTANCE => k == Kind::Instance,
                gk::EXTENSION => false,
                _ => false,
            }
        }
    }
}

fn tag_name(t: u8) -> &'static str {
    [
        "Mark", "List", "Dict", "Set", "FrozenSet", "Tuple", "String", "Bytes", "ByteArray", "Int", "Float", "Bool", "None",
        "Global", "Callable", "Instance", "Extension", "Any",
    ]
    .get(t as usize)
    .copied()
    .unwrap_or("?")
}

pub fn check_c17(cfg: &Config, res: &CaseResult, acc: &mut Acc) {
    acc.evaluations += 1;
    let Outcome::Ok(bytes) = &res.outcome else {
        acc.count("generation_failed_not_judged_here", 1);
        return;
    };
    let lexed = match lex(bytes) {
        Ok(l) => l,
        Err(_) => {
            acc.count("undecodable_outputs_not_judged_here", 1);
            return;
        }
    };
    let ins: &Vec<Ins> = &lexed.ins;
    let mut vm = Vm::new(false);
    let mut next = 0usize;
    let mut steps = 0u64;
    let mut viol: Option<(String, String, usize)> = None;
    let mut transitions: BTreeSet<u64> = BTreeSet::new();
    'outer: for ev in &res.events {
        let Event::Step { phase, out_len, stack, memo_keys, stack_len, .. } = ev else { continue };
        if *phase == Phase::Stop {
            break;
        }
        // advance the reference machine over all opcodes that end at or before out_len
        let mut last_name = "";
        while next < ins.len() && ins[next].end <= *out_len {
            let i = &ins[next];
            if i.op.name == "STOP" {
                break;
            }
            last_name = i.op.name;
            let pre = o2_abstract(&vm);
            if let Err(e) = vm.step(i) {
                viol = Some((
                    format!("refreject:{}", i.op.name),
                    format!(
                        "reference machine rejects {} at offset {} ({}) while the simulation went on",
                        i.op.name, i.pos, e
                    ),
                    i.pos,
                ));
                break 'outer;
            }
            transitions.insert(pre.wrapping_mul(31).wrapping_add(i.op.code as u64));
            next += 1;
        }
        if next < ins.len() && ins[next].pos < *out_len && ins[next].end > *out_len {
            viol = Some((
                "misaligned".into(),
                format!("step boundary {} falls inside opcode {} at offset {}", out_len, ins[next].op.name, ins[next].pos),
                *out_len,
            ));
            break;
        }
        steps += 1;
        // compare
        if *stack_len != vm.stack.len() || stack.len() != vm.stack.len() {
            viol = Some((
                format!("depth:{}", last_name),
                format!(
                    "after {} (output length {}): simulated depth {} but reference depth {}",
                    last_name,
                    out_len,
                    stack_len,
                    vm.stack.len()
                ),
                *out_len,
            ));
            break;
        }
        for (k, (t, s)) in stack.iter().zip(vm.stack.iter()).enumerate() {
            if !compatible(*t, *s, &vm) {
                let refd = match s {
                    Slot::Mark => "MARK".to_string(),
                    Slot::Obj(i) => vm.objs[*i].kind.name().to_string(),
                };
                let what = if *t == gk::MARK || *s == Slot::Mark { "mark" } else { "kind" };
                viol = Some((
                    format!("{}:{}", what, last_name),
                    format!(
                        "after {} (output length {}): slot {} of {} is {} in the simulation but {} on the reference machine",
                        last_name,
                        out_len,
                        k,
                        stack.len(),
                        tag_name(*t),
                        refd
                    ),
                    *out_len,
                ));
                break 'outer;
            }
        }
        let ref_keys: Vec<i128> = vm.memo.keys().copied().collect();
        let same = ref_keys.len() == memo_keys.len() && ref_keys.iter().zip(memo_keys.iter()).all(|(a, b)| *a == *b as i128);
        if !same {
            viol = Some((
                format!("memo:{}", last_name),
                format!(
                    "after {} (output length {}): simulated memo has {} keys, reference memo has {} keys (or the key sets differ)",
                    last_name,
                    out_len,
                    memo_keys.len(),
                    ref_keys.len()
                ),
                *out_len,
            ));
            break;
        }
    }
    if let Some((sig, msg, pos)) = viol {
        acc.violate(Violation {
            property: "C17".into(),
            signature: format!("C17:{}:P{}", sig, cfg.proto),
            message: format!("{} [{}]", msg, cfg.short()),
            replay: replay_case("C17", cfg, Some(bytes), &msg, json!({"out_len": pos})),
        });
    }
    acc.count("steps_compared", steps);
    let h = hash128(bytes);
    acc.ins_distinct(h);
    if steps >= 3 {
        acc.ins_nontrivial(h);
    }
    for t in transitions {
        acc.ins_distinct((t as u128) | (1u128 << 127));
    }
    if steps == 0 && !res.events.is_empty() && ins.len() > 3 {
        acc.count("cases_without_step_events", 1);
    }
    if acc.samples.len() < 3 && steps > 10 {
        let names: Vec<&str> = ins.iter().map(|i| i.op.name).collect();
        acc.sample(sample_of(cfg, bytes, &names));
    }
}

pub fn c17(thorough: bool, seed: u64) -> CheckOutput {
    let n = if thorough { 500_000 } else { 30_000 };
    let mut sp = Space::safe();
    sp.ranges = vec![(0, 0), (0, 1), (1, 1), (7, 3), (2, 9), (60, 300), (300, 60), (10, 50), (600, 900)];
    let tr = trace_cfg();
    let mut acc = bulk(n, seed, &sp, Some(tr), check_c17);
    let (ex_depth, max_depth, budget) = if thorough { (4, 18, 60_000_000u64) } else { (3, 10, 2_400_000u64) };
    let mut explore_json = vec![];
    for proto in 0..6u8 {
        for filler_kind in [0u8, 2u8] {
            let base = Config {
                ext: true,
                buf: true,
                ..Config::default_for(proto, Entropy::Bytes(vec![]))
            };
            let st = explore(&base, filler_kind, ex_depth, max_depth, budget / 12, &mut acc, &check_c17);
            explore_json.push(json!({"proto": proto, "filler": filler_kind, "runs": st.runs,
                "levels": st.levels, "abstract_states": st.abstract_states, "max_depth": st.max_depth}));
        }
    }
    let st = steered_block(if thorough { 60_000 } else { 6_000 }, seed, true, &check_c17);
    acc.merge(st);
    let lb = long_block(if thorough { 1200 } else { 120 }, seed, tr, &check_c17);
    acc.merge(lb);
    let deep = deep_block(if thorough { 1200 } else { 120 }, seed, tr, &[if thorough { 2500 } else { 1500 }], &check_c17);
    acc.merge(deep);
    let ie = int_edge_block(if thorough { 30_000 } else { 3_000 }, seed, &check_c17);
    acc.merge(ie);
    if acc.get("steps_compared") < 10_000 {
        acc.inconclusive.push("too few step snapshots compared (hook stream empty?)".into());
    }
    let trans = acc.distinct.iter().filter(|h| *h >> 127 == 1).count();
    acc.distinct.retain(|h| h >> 127 == 0);
    CheckOutput {
        acc,
        rule: "cases = safe configuration matrix + decision-tree exploration (as C03), each with the per-emission snapshot log; after every emission the generator's stack tags, MARK positions and memo keys are compared with the reference machine run on output[..len]; distinct = distinct output bytes; non-trivial = at least three snapshots compared".into(),
        extra: json!({"decision_tree": explore_json, "distinct_state_opcode_transitions": trans}),
        assumptions: std_assumptions(),
        exhaustive: None,
    }
}

// ================================================================ C11

pub fn check_c11(cfg: &Config, res: &CaseResult, acc: &mut Acc) {
    acc.evaluations += 1;
    let Outcome::Ok(bytes) = &res.outcome else {
        acc.count("generation_failed_not_judged_here", 1);
        return;
    };
    let lexed = match lex(bytes) {
        Ok(l) => l,
        Err(_) => {
            acc.count("undecodable_outputs_not_judged_here", 1);
            return;
        }
    };
    let ins = &lexed.ins;
    let (min, max) = (cfg.min, cfg.max);
    let hi = max.max(min);
    let mut viol: Option<(String, String)> = None;
    let mut target: Option<usize> = None;
    let mut body_start = 0usize;
    let mut choices = 0usize;
    let mut body_steps = 0usize;
    let mut tail_steps = 0usize;
    let mut prev_len: Option<usize> = None;
    let mut tail_start: Option<usize> = None;
    // index instructions by start offset
    let mut by_pos: BTreeMap<usize, usize> = BTreeMap::new();
    for (k, i) in ins.iter().enumerate() {
        by_pos.insert(i.pos, k);
    }
    for ev in &res.events {
        match ev {
            Event::Run { target_opcodes, out_len, .. } => {
                target = Some(*target_opcodes);
                body_start = *out_len;
                prev_len = Some(*out_len);
                let t = *target_opcodes;
                let ok = if max <= min { t == min } else { t >= min && t <= max };
                if !ok && viol.is_none() {
                    viol = Some(("target".into(), format!("T={} outside [{}..{}]", t, min, max)));
                }
            }
            Event::Choice { .. } => choices += 1,
            Event::Step { phase: Phase::Body, out_len, .. } => {
                body_steps += 1;
                let from = prev_len.unwrap_or(0);
                // the byte range of this step must be exactly one opcode
                let one = match by_pos.get(&from) {
                    Some(k) => ins[*k].end == *out_len,
                    None => false,
                };
                if !one && viol.is_none() {
                    let n_ops = ins.iter().filter(|i| i.pos >= from && i.end <= *out_len).count();
                    viol = Some((
                        "body_step".into(),
                        format!(
                            "body step #{} wrote bytes {}..{} which decode to {} opcodes instead of exactly one",
                            body_steps, from, out_len, n_ops
                        ),
                    ));
                }
                prev_len = Some(*out_len);
            }
            Event::Step { phase: Phase::Tail, out_len, .. } => {
                if tail_start.is_none() {
                    tail_start = prev_len;
                }
                tail_steps += 1;
                // every emission appends at least its opcode byte: the output never stands still or
                // shrinks between two emissions (bytes taken away from what the body wrote would
                // leave fewer than T body opcodes behind while all counts still add up)
                if *out_len <= prev_len.unwrap_or(0) && viol.is_none() {
                    viol = Some((
                        "tail_step".into(),
                        format!(
                            "collapse-tail emission #{} left the output at {} bytes, not longer than before it ({} bytes): bytes written earlier were removed",
                            tail_steps,
                            out_len,
                            prev_len.unwrap_or(0)
                        ),
                    ));
                }
                prev_len = Some(*out_len);
            }
            _ => {}
        }
    }
    let have_events = target.is_some();
    if let Some(t) = target {
        if choices != t && viol.is_none() {
            viol = Some(("choices".into(), format!("{} body choices for T={}", choices, t)));
        }
        if body_steps != t && viol.is_none() {
            viol = Some(("steps".into(), format!("{} body emissions for T={}", body_steps, t)));
        }
        // count decoded opcodes in the tail region
        let ts = tail_start.or(prev_len).unwrap_or(body_start);
        let stop_pos = ins.last().map(|i| i.pos).unwrap_or(0);
        let tail_ops = ins.iter().filter(|i| i.pos >= ts && i.pos < stop_pos).count();
        let tail_ops = if tail_steps == 0 { 0 } else { tail_ops };
        if tail_ops > 2 * t + 1 && viol.is_none() {
            viol = Some(("tail".into(), format!("collapse tail of {} opcodes for T={} (bound 2T+1)", tail_ops, t)));
        }
        let header = ins.iter().filter(|i| i.pos < body_start).count();
        let total = ins.len();
        if total != header + t + tail_ops + 1 && viol.is_none() {
            viol = Some((
                "sum".into(),
                format!("decoded {} opcodes != header {} + T {} + tail {} + STOP", total, header, t, tail_ops),
            ));
        }
        acc.count("tail_opcodes", tail_ops as u64);
        acc.max("max_tail_len", tail_ops as u64);
        acc.count("body_opcodes", t as u64);
    }
    // hook-free bound on the decoded total
    let total = ins.len();
    if (total < min + 1 || total > 3 * hi + 4) && viol.is_none() {
        viol = Some((
            "total".into(),
            format!("decoded {} opcodes, outside [{}..{}]", total, min + 1, 3 * hi + 4),
        ));
    }
    if let Some((sig, msg)) = viol {
        acc.violate(Violation {
            property: "C11".into(),
            signature: format!("C11:{}:P{}", sig, cfg.proto),
            message: format!("{} [{}]", msg, cfg.short()),
            replay: replay_case("C11", cfg, Some(bytes), &msg, json!({"min": min, "max": max, "target": target})),
        });
    }
    if !have_events {
        acc.count("cases_without_run_event", 1);
    }
    let h = hash128(bytes);
    acc.ins_distinct(h);
    if target.unwrap_or(0) >= 2 {
        acc.ins_nontrivial(h);
    }
    let class = if max < min {
        "range_inverted"
    } else if max == min {
        "range_equal"
    } else {
        "range_proper"
    };
    acc.count(class, 1);
    if min == 0 {
        acc.count("range_min_zero", 1);
    }
    if acc.samples.len() < 3 {
        let names: Vec<&str> = ins.iter().map(|i| i.op.name).collect();
        let mut s = sample_of(cfg, bytes, &names);
        s["T"] = json!(target);
        acc.sample(s);
    }
}

pub fn c11(thorough: bool, seed: u64) -> CheckOutput {
    let n = if thorough { 1_500_000 } else { 120_000 };
    let mut sp = Space::full();
    sp.ranges = vec![
        (0, 0), (0, 1), (1, 0), (1, 1), (1, 2), (2, 2), (7, 3), (3, 7), (2, 9), (10, 10), (60, 300), (300, 60), (10, 50), (50, 10),
        (255, 257), (256, 256), (400, 401), (0, 600),
    ];
    sp.rates = vec![0.0, 0.5, 1.0, 1.0];
    let tr = verif::Config {
        snapshots: false,
        choices: true,
        step_limit: 0,
    };
    let mut acc = bulk(n, seed, &sp, Some(tr), check_c11);
    // deep-state block: thousands of pending MARKs / stack entries when the collapse tail starts
    let deep_sizes: Vec<usize> = if thorough { vec![4200, 11_000, 20_500] } else { vec![4200, 20_500] };
    let deep = deep_block(if thorough { 1500 } else { 150 }, seed, tr, &deep_sizes, &check_c11);
    acc.merge(deep);
    // front end: --min-opcodes / --max-opcodes through the built CLI (unseeded batch runs); only the
    // hook-free bound on the decoded total applies there
    if std::env::var("PFV_CLI").is_ok() {
        let grid: Vec<(usize, usize)> = vec![(0, 0), (0, 1), (1, 1), (2, 2), (7, 3), (3, 7), (10, 10), (10, 50), (50, 10), (60, 300), (120, 121), (0, 200)];
        let samples = if thorough { 300 } else { 40 };
        let grid_ref = &grid;
        let fe = par_run(
            grid.len() * 6,
            Acc::new,
            |i, acc| {
                let (min, max) = grid_ref[i / 6];
                let proto = (i % 6) as u8;
                let mut args: Vec<String> = vec![
                    "--protocol".into(), proto.to_string(), "--min-opcodes".into(), min.to_string(), "--max-opcodes".into(), max.to_string(),
                ];
                if i % 2 == 0 {
                    args.extend(["--mutation-rate", "1.0", "--mutators", "stringlen", "offbyone", "memoindex"].iter().map(|s| s.to_string()));
                }
                match cli_batch(&args, samples, &[]) {
                    Err(m) => acc.inconclusive.push(format!("CLI batch run failed: {}", m)),
                    Ok(files) => {
                        for bytes in &files {
                            acc.evaluations += 1;
                            let Ok(l) = lex(bytes) else {
                                acc.count("undecodable_outputs_not_judged_here", 1);
                                continue;
                            };
                            acc.count("cli_files_counted", 1);
                            let hi = max.max(min);
                            let total = l.ins.len();
                            if total < min + 1 || total > 3 * hi + 4 {
                                let msg = format!(
                                    "CLI --protocol {} --min-opcodes {} --max-opcodes {} wrote a pickle of {} opcodes, outside [{}..{}]",
                                    proto, min, max, total, min + 1, 3 * hi + 4
                                );
                                acc.violate(Violation {
                                    property: "C11".into(),
                                    signature: format!("C11:cli_total:P{}", proto),
                                    message: msg.clone(),
                                    replay: json!({"kind": "c11-cli", "property": "C11", "protocol": proto, "min": min, "max": max,
                                        "message": msg, "output_hex": hex(&bytes[..bytes.len().min(4096)])}),
                                });
                                break;
                            }
                        }
                    }
                }
            },
            |a, b| a.merge(b),
        );
        acc.merge(fe);
        if acc.get("cli_files_counted") < 500 {
            acc.inconclusive.push("too few CLI outputs counted".into());
        }
        // the same knobs through the action wrapper's min_opcodes / max_opcodes inputs
        let wfe = par_run(
            grid.len() * 3,
            Acc::new,
            |i, acc| {
                let (min, max) = grid_ref[i / 3];
                let proto = ((i * 5 + i / 3) % 6) as u8;
                // plain and zero-padded spellings of the same numbers
                let spell = |v: usize| if i % 3 == 2 { format!("{:03}", v) } else { v.to_string() };
                let inputs: Vec<(&str, String)> = vec![
                    ("INPUT_PROTOCOL", proto.to_string()),
                    ("INPUT_MIN_OPCODES", spell(min)),
                    ("INPUT_MAX_OPCODES", spell(max)),
                ];
                match action_batch(&inputs, 8) {
                    Err(m) => acc.inconclusive.push(format!("action wrapper run failed: {}", m)),
                    Ok(files) => {
                        for bytes in &files {
                            acc.evaluations += 1;
                            let Ok(l) = lex(bytes) else {
                                acc.count("undecodable_outputs_not_judged_here", 1);
                                continue;
                            };
                            acc.count("wrapper_files_counted", 1);
                            let hi = max.max(min);
                            let total = l.ins.len();
                            if total < min + 1 || total > 3 * hi + 4 {
                                let msg = format!(
                                    "action wrapper with protocol={} min_opcodes={} max_opcodes={} wrote a pickle of {} opcodes, outside [{}..{}]",
                                    proto, spell(min), spell(max), total, min + 1, 3 * hi + 4
                                );
                                acc.violate(Violation {
                                    property: "C11".into(),
                                    signature: format!("C11:wrapper_total:P{}", proto),
                                    message: msg.clone(),
                                    replay: json!({"kind": "c11-cli", "property": "C11", "protocol": proto, "min": min, "max": max, "frontend": "scripts/action-run.sh",
                                        "message": msg, "output_hex": hex(&bytes[..bytes.len().min(4096)])}),
                                });
                                break;
                            }
                        }
                    }
                }
            },
            |a, b| a.merge(b),
        );
        acc.merge(wfe);
    }
    // hook-free part also on unsafe configurations (only the decoded-total bound applies there)
    if acc.get("cases_without_run_event") > 0 {
        acc.inconclusive.push("Run events missing from the hook log".into());
    }
    for k in ["range_inverted", "range_equal", "range_proper", "range_min_zero"] {
        if acc.get(k) < 100 {
            acc.inconclusive.push(format!("too few {} cases", k));
        }
    }
    CheckOutput {
        acc,
        rule: "cases = configuration matrix (safe and unsafe mode, all 128 mutator subsets incl. duplicated mutators x 6 protocols, rates incl. 1.0 so string-length mutators and post-emission rewrites run) over an 18-point (min,max) grid incl. equal, inverted and zero; T, the number of choices/emissions and the body/tail boundary come from the hook log, opcode counts from the lexer; distinct = distinct output bytes; non-trivial = T >= 2".into(),
        extra: json!({}),
        assumptions: std_assumptions(),
        exhaustive: None,
    }
}

// ================================================================ C12

pub fn c12(thorough: bool, seed: u64) -> CheckOutput {
    // fixed seed block [0, N) per protocol (deterministic => verdict is a function of the tree)
    let n_per = if thorough { 400_000usize } else { 60_000usize };
    let n_extra = n_per / 4;
    #[derive(Default)]
    struct Cov {
        acc: Option<Acc>,
        // (proto, opcode name) -> (count, first seed)
        seen: BTreeMap<(u8, &'static str), (u64, u64)>,
        seen_flags: BTreeMap<(u8, &'static str), (u64, u64)>,
        framed: BTreeMap<u8, (u64, u64)>,
        unframed: BTreeMap<u8, (u64, u64)>,
    }
    // prelude on this thread, protocols ASCENDING: process-wide state initialised by a lower
    // protocol (e.g. a cached opcode list) must not make an opcode of a higher protocol unreachable
    for p in 0..6u8 {
        for s in 0..4u64 {
            let _ = run_case(&Config::default_for(p, Entropy::Seed(1_000_000 + s)), None);
        }
    }
    let total = 6 * (n_per + n_extra) * 2;
    let cov = par_run(
        total,
        || Cov {
            acc: Some(Acc::new()),
            ..Default::default()
        },
        |i, c: &mut Cov| {
            let flags = i % 2 == 1;
            let k = i / 2;
            let proto = (k % 6) as u8;
            let idx = k / 6;
            let s = if idx < n_per {
                idx as u64
            } else {
                mix(seed, idx as u64)
            };
            let cfg = Config {
                ext: flags,
                buf: flags,
                ..Config::default_for(proto, Entropy::Seed(s))
            };
            let res = run_case(&cfg, None);
            let acc = c.acc.as_mut().unwrap();
            acc.evaluations += 1;
            let Outcome::Ok(bytes) = &res.outcome else {
                acc.count("generation_failed_not_judged_here", 1);
                return;
            };
            let Ok(l) = lex(bytes) else {
                acc.count("undecodable_outputs_not_judged_here", 1);
                return;
            };
            let h = hash128(bytes);
            acc.ins_distinct(h);
            acc.ins_nontrivial(h);
            let mut framed = false;
            for ins in &l.ins {
                let m = if flags { &mut c.seen_flags } else { &mut c.seen };
                let e = m.entry((proto, ins.op.name)).or_insert((0, s));
                e.0 += 1;
                if s < e.1 {
                    e.1 = s;
                }
                if ins.op.name == "FRAME" {
                    framed = true;
                }
            }
            if !flags && proto >= 4 {
                let m = if framed { &mut c.framed } else { &mut c.unframed };
                let e = m.entry(proto).or_insert((0, s));
                e.0 += 1;
                e.1 = e.1.min(s);
            }
            if acc.samples.len() < 2 {
                let names: Vec<&str> = l.ins.iter().map(|i| i.op.name).collect();
                acc.sample(sample_of(&cfg, bytes, &names));
            }
        },
        |a, b| {
            a.acc.as_mut().unwrap().merge(b.acc.unwrap());
            for (src, dst) in [(b.seen, &mut a.seen), (b.seen_flags, &mut a.seen_flags)] {
                for (k, v) in src {
                    let e = dst.entry(k).or_insert((0, v.1));
                    e.0 += v.0;
                    e.1 = e.1.min(v.1);
                }
            }
            for (src, dst) in [(b.framed, &mut a.framed), (b.unframed, &mut a.unframed)] {
                for (k, v) in src {
                    let e = dst.entry(k).or_insert((0, v.1));
                    e.0 += v.0;
                    e.1 = e.1.min(v.1);
                }
            }
        },
    );
    let mut acc = cov.acc.unwrap();
    // the opt-in opcodes must also be reachable through the command line, one flag at a time
    if std::env::var("PFV_CLI").is_ok() {
        let samples = if thorough { 1500 } else { 300 };
        let mut jobs: Vec<(u8, bool, bool)> = Vec::new(); // proto, ext flag, buf flag
        for p in 2..6u8 {
            jobs.push((p, true, false));
        }
        jobs.push((5, false, true));
        jobs.push((5, true, true));
        let jobs_ref = &jobs;
        let fe = par_run(
            jobs.len() * 2,
            Acc::new,
            |i, a| {
                let (proto, e, b) = jobs_ref[i / 2];
                let batch = i % 2 == 0;
                let mut flags: Vec<String> = vec!["--protocol".into(), proto.to_string()];
                if e {
                    flags.push("--allow-ext".into());
                }
                if b {
                    flags.push("--allow-buffer".into());
                }
                let files = if batch {
                    cli_batch(&flags, samples, &[])
                } else {
                    // single-file mode, one process per seed
                    let cli = std::env::var("PFV_CLI").unwrap();
                    let d = std::env::temp_dir().join(format!("pfv-c12-{}-{}", std::process::id(), i));
                    let _ = std::fs::create_dir_all(&d);
                    let mut v = Vec::new();
                    for s in 0..(samples / 6) as u64 {
                        let f = d.join("one.pkl");
                        let ok = std::process::Command::new(&cli).args(&flags).arg("--seed").arg((s * 6 + proto as u64).to_string()).arg("--").arg(&f).output();
                        if matches!(ok, Ok(o) if o.status.success()) {
                            v.push(std::fs::read(&f).unwrap_or_default());
                        }
                    }
                    let _ = std::fs::remove_dir_all(&d);
                    Ok(v)
                };
                match files {
                    Err(m) => a.inconclusive.push(format!("CLI run failed in the C12 front-end layer: {}", m)),
                    Ok(files) => {
                        let mut seen: BTreeSet<&'static str> = BTreeSet::new();
                        for bytes in &files {
                            a.evaluations += 1;
                            for ins in crate::lexer::lex_lenient(bytes) {
                                seen.insert(ins.op.name);
                            }
                        }
                        a.count("cli_files_scanned", files.len() as u64);
                        let mut want: Vec<&'static str> = vec![];
                        if e {
                            want.extend(["EXT1", "EXT2", "EXT4"]);
                        }
                        if b {
                            want.extend(["NEXT_BUFFER", "READONLY_BUFFER"]);
                        }
                        for w in want {
                            if !seen.contains(w) {
                                let mode = if batch { "batch mode" } else { "single-file mode" };
                                let msg = format!(
                                    "opcode {} never occurs in {} outputs of the CLI ({}) with {}",
                                    w,
                                    files.len(),
                                    mode,
                                    flags.join(" ")
                                );
                                a.violate(Violation {
                                    property: "C12".into(),
                                    signature: format!("C12:cli_dead:{}:P{}:{}", w, proto, if batch { "batch" } else { "single" }),
                                    message: msg.clone(),
                                    replay: json!({"kind": "c12-cli", "property": "C12", "flags": flags, "mode": mode, "opcode": w, "message": msg}),
                                });
                            }
                        }
                    }
                }
            },
            |a, b| a.merge(b),
        );
        acc.merge(fe);
        // ... and with the protocol left to the tool (--seed S alone: the CLI derives the protocol
        // from the seed): every protocol must come up, and protocols 4 and 5 both framed and unframed
        let cli = std::env::var("PFV_CLI").unwrap();
        let n_seeds: u64 = if thorough { 1200 } else { 300 };
        let derived = par_run(
            n_seeds as usize,
            Acc::new,
            |i, a| {
                let f = std::env::temp_dir().join(format!("pfv-c12s-{}-{}.pkl", std::process::id(), i));
                let s = i as u64 + (seed % 7) * 6;
                let ok = std::process::Command::new(&cli).arg("--seed").arg(s.to_string()).arg("--").arg(&f).output();
                if matches!(ok, Ok(o) if o.status.success()) {
                    let bytes = std::fs::read(&f).unwrap_or_default();
                    a.evaluations += 1;
                    let ins = crate::lexer::lex_lenient(&bytes);
                    let proto = match ins.first() {
                        Some(i0) if i0.op.name == "PROTO" => bytes.get(1).copied().unwrap_or(0),
                        _ => 0, // protocols 0 and 1 carry no PROTO: counted together
                    };
                    let framed = ins.iter().any(|k| k.op.name == "FRAME");
                    a.count(&format!("cli_derived_protocol_P{}_{}", proto, if framed { "framed" } else { "unframed" }), 1);
                } else {
                    a.inconclusive.push("CLI run with --seed alone failed in the C12 front-end layer".into());
                }
                let _ = std::fs::remove_file(&f);
            },
            |a, b| a.merge(b),
        );
        acc.merge(derived);
        for key in ["P0_unframed", "P2_unframed", "P3_unframed", "P4_framed", "P4_unframed", "P5_framed", "P5_unframed"] {
            if acc.get(&format!("cli_derived_protocol_{}", key)) == 0 && acc.inconclusive.is_empty() {
                let msg = format!(
                    "no {} pickle among {} CLI runs with --seed S alone (protocol derived from the seed by the tool)",
                    key.replace('_', " "),
                    n_seeds
                );
                acc.violate(Violation {
                    property: "C12".into(),
                    signature: format!("C12:cli_derived:{}", key),
                    message: msg.clone(),
                    replay: json!({"kind": "c12-cli", "property": "C12", "flags": ["--seed", "S"], "mode": "single-file, protocol derived from the seed", "opcode": key, "message": msg}),
                });
            }
        }
    }
    // ... and on a generator that was built for, and has already generated under, a LOWER protocol
    // before its public state.version was raised: one long-lived object per protocol, seeds through
    // the public field. Half as many seeds as the main block (the rarest pair still about 12 times).
    {
        let n_re = n_per / 2;
        let re: BTreeMap<(u8, &'static str), u64> = par_run(
            5 * 16,
            BTreeMap::new,
            |i, m: &mut BTreeMap<(u8, &'static str), u64>| {
                let proto = 1 + (i % 5) as u8;
                let chunk = i / 5;
                let lower = ((proto as usize * 7 + chunk) % proto as usize) as u8;
                let mut g = Config::default_for(lower, Entropy::Seed(chunk as u64)).build();
                let _ = g.generate();
                g.state.version = pickle_fuzzer::Version::try_from(proto as usize).expect("proto");
                for s in (chunk..n_re).step_by(16) {
                    g.seed = Some(s as u64);
                    if let Ok(b) = g.generate() {
                        for ins in crate::lexer::lex_lenient(&b) {
                            *m.entry((proto, ins.op.name)).or_insert(0) += 1;
                        }
                    }
                }
            },
            |a, b| {
                for (k, v) in b {
                    *a.entry(k).or_insert(0) += v;
                }
            },
        );
        acc.count("retargeted_generator_census_generations", (5 * n_re) as u64);
        for proto in 1..6u8 {
            for row in OPTABLE {
                if row.proto > proto || matches!(row.name, "EXT1" | "EXT2" | "EXT4" | "NEXT_BUFFER" | "READONLY_BUFFER") {
                    continue;
                }
                if re.get(&(proto, row.name)).copied().unwrap_or(0) == 0 {
                    let msg = format!(
                        "opcode {} never occurs for protocol {} over {} seeds on a generator that first generated under a lower protocol and was then retargeted through state.version, although it occurs on fresh generators",
                        row.name, proto, n_re
                    );
                    acc.violate(Violation {
                        property: "C12".into(),
                        signature: format!("C12:retargeted_dead:{}:P{}", row.name, proto),
                        message: msg.clone(),
                        replay: json!({"kind": "c12", "property": "C12", "proto": proto, "opcode": row.name, "history": "Generator::new(lower), generate, state.version = P, seeds via the seed field", "message": msg}),
                    });
                }
            }
        }
    }
    // the same vocabulary must be reachable from fuzzer bytes (generate_from_arbitrary): random
    // 4 KiB inputs, recipe-steered inputs and short greedy "X whenever offered" inputs for every
    // opcode X, all with the two opt-in flags on
    {
        let n_rand = if thorough { 30_000usize } else { 3_000 };
        let pairs = deep_pairs();
        let n_pairs = pairs.len();
        let pairs_ref = &pairs;
        let per_proto = 2 * n_rand + n_pairs;
        let fz: BTreeMap<(u8, &'static str), u64> = par_run(
            6 * per_proto,
            BTreeMap::new,
            |i, m: &mut BTreeMap<(u8, &'static str), u64>| {
                let proto = (i % 6) as u8;
                let k = i / 6;
                let base = Config {
                    ext: true,
                    buf: true,
                    ..Config::default_for(proto, Entropy::Bytes(vec![]))
                };
                let cfg = if k < n_rand {
                    let mut rng = Rng::new(mix(seed ^ 0xF022, i as u64));
                    Config {
                        entropy: Entropy::Bytes(rng.bytes(4096)),
                        ..base
                    }
                } else if k < 2 * n_rand {
                    object_heavy(&base, mix(seed ^ 0xF023, i as u64))
                } else {
                    let (x, y) = pairs_ref[k - 2 * n_rand];
                    steer(&base, 24, 2, i as u64, |_d, p| greedy_policy(x, y)(0, &p.valid))
                };
                if let Outcome::Ok(b) = run_case(&cfg, None).outcome {
                    for ins in crate::lexer::lex_lenient(&b) {
                        *m.entry((proto, ins.op.name)).or_insert(0) += 1;
                    }
                }
            },
            |a, b| {
                for (k, v) in b {
                    *a.entry(k).or_insert(0) += v;
                }
            },
        );
        acc.count("fuzzer_bytes_census_inputs", (6 * per_proto) as u64);
        let mut rarest: Option<(u64, String)> = None;
        for proto in 0..6u8 {
            for row in OPTABLE {
                if row.proto > proto {
                    continue;
                }
                let cnt = fz.get(&(proto, row.name)).copied().unwrap_or(0);
                if rarest.as_ref().map_or(true, |(c, _)| cnt < *c) {
                    rarest = Some((cnt, format!("P{}:{}", proto, row.name)));
                }
                if cnt == 0 {
                    let msg = format!(
                        "opcode {} never occurs for protocol {} on the fuzzer-bytes entry point ({} inputs: random, recipe-steered and greedy-steered, opt-in flags on) although it occurs for PRNG seeds",
                        row.name, proto, per_proto
                    );
                    acc.violate(Violation {
                        property: "C12".into(),
                        signature: format!("C12:fuzz_dead:{}:P{}", row.name, proto),
                        message: msg.clone(),
                        replay: json!({"kind": "c12", "property": "C12", "proto": proto, "opcode": row.name, "entry_point": "generate_from_arbitrary", "message": msg}),
                    });
                }
            }
        }
        if let Some((c, n)) = rarest {
            acc.count(&format!("fuzzer_bytes_census_rarest_pair_{}", n.replace(':', "_")), c);
        }
    }
    let optin = ["EXT1", "EXT2", "EXT4", "NEXT_BUFFER", "READONLY_BUFFER"];
    let mut witnesses = serde_json::Map::new();
    let mut rarest: Option<(u64, String)> = None;
    for proto in 0..6u8 {
        for row in OPTABLE {
            if row.proto > proto {
                continue;
            }
            // PROTO exists from protocol 2; FRAME from 4 (table says so)
            let is_optin = optin.contains(&row.name);
            let map = if is_optin { &cov.seen_flags } else { &cov.seen };
            match map.get(&(proto, row.name)) {
                Some((cnt, first)) => {
                    witnesses.insert(format!("P{}:{}", proto, row.name), json!({"count": cnt, "first_seed": first, "flags_on": is_optin}));
                    if rarest.as_ref().map_or(true, |(c, _)| cnt < c) {
                        rarest = Some((*cnt, format!("P{}:{}", proto, row.name)));
                    }
                }
                None => {
                    let msg = format!(
                        "opcode {} never occurs in protocol {} output over seeds [0,{}) + {} derived seeds{}",
                        row.name,
                        proto,
                        n_per,
                        n_extra,
                        if is_optin { " with the opt-in flags on" } else { " with default settings" }
                    );
                    acc.violate(Violation {
                        property: "C12".into(),
                        signature: format!("C12:dead:{}:P{}", row.name, proto),
                        message: msg.clone(),
                        replay: json!({"kind": "c12", "property": "C12", "proto": proto, "opcode": row.name,
                            "flags_on": is_optin, "seed_block": n_per, "message": msg}),
                    });
                }
            }
        }
        if proto >= 4 {
            for (name, m) in [("framed", &cov.framed), ("unframed", &cov.unframed)] {
                if m.get(&proto).map_or(0, |v| v.0) == 0 {
                    let msg = format!("no {} protocol {} pickle over the seed block", name, proto);
                    acc.violate(Violation {
                        property: "C12".into(),
                        signature: format!("C12:{}:P{}", name, proto),
                        message: msg.clone(),
                        replay: json!({"kind": "c12", "property": "C12", "proto": proto, "opcode": name, "message": msg}),
                    });
                }
            }
        }
    }
    CheckOutput {
        acc,
        rule: "cases = default-settings generations for seeds [0,N) per protocol plus VERIF_SEED-derived seeds, once with defaults and once with the two opt-in flags on (EXT*/buffer opcodes are only expected there); every (protocol, opcode) of the CPython table with introduced-in <= P must occur; distinct = distinct output bytes (every output is non-trivial: it contributes its opcode set)".into(),
        extra: json!({
            "seed_block_per_protocol": n_per,
            "derived_seeds_per_protocol": n_extra,
            "witnesses": witnesses,
            "rarest_pair": rarest.map(|(c, n)| json!({"pair": n, "count": c})),
            "framed": cov.framed.iter().map(|(k, v)| (format!("P{}", k), json!(v.0))).collect::<serde_json::Map<_, _>>(),
            "unframed": cov.unframed.iter().map(|(k, v)| (format!("P{}", k), json!(v.0))).collect::<serde_json::Map<_, _>>(),
        }),
        assumptions: vec![
            "expected vocabulary = rows of the CPython pickletools table with proto <= P (STOP, PROTO, FRAME included)".into(),
            "existential over a fixed finite seed block: absence there is reported as a violation of the property as stated".into(),
        ],
        exhaustive: None,
    }
}

// ================================================================ C15 (in-generation part)

fn applicable(m: Mk, kind: ValueKind, empty: bool) -> bool {
    match (m, kind) {
        (Mk::Bitflip, ValueKind::Int | ValueKind::Long) => true,
        (Mk::Boundary, ValueKind::Int | ValueKind::Long | ValueKind::Float) => true,
        (Mk::Offbyone, ValueKind::Int | ValueKind::Long | ValueKind::Memo) => true,
        (Mk::Stringlen, ValueKind::String | ValueKind::Bytes) => true,
        (Mk::Character, ValueKind::String | ValueKind::Bytes) => !empty,
        (Mk::Memoindex, ValueKind::Memo) => true,
        _ => false,
    }
}

pub fn check_c15(cfg: &Config, res: &CaseResult, acc: &mut Acc) {
    acc.evaluations += 1;
    let Outcome::Ok(bytes) = &res.outcome else {
        acc.count("generation_failed_not_judged_here", 1);
        return;
    };
    let rate = cfg.rate;
    let mut viol: Option<(String, String)> = None;
    let mut draws = 0u64;
    let mut muts = 0u64;
    let mut pending: Option<(ValueKind, bool)> = None;
    let mut finish_pending = |pending: &mut Option<(ValueKind, bool)>, viol: &mut Option<(String, String)>| {
        if let Some((k, empty)) = pending.take() {
            // a Draw that was not followed by a Mutated
            if rate == 1.0 {
                if let Some((i, m)) = cfg.mutators.iter().enumerate().find(|(_, m)| applicable(**m, k, empty)) {
                    if viol.is_none() {
                        *viol = Some((
                            format!("rate1_unmutated:{:?}:{}", k, m.name()),
                            format!(
                                "rate 1.0: a {:?} value{} was not mutated although mutator #{} ({}) is applicable",
                                k,
                                if empty { " (empty)" } else { "" },
                                i,
                                m.name()
                            ),
                        ));
                    }
                }
            }
        }
    };
    for ev in &res.events {
        match ev {
            Event::Draw { kind, empty } => {
                finish_pending(&mut pending, &mut viol);
                pending = Some((*kind, *empty));
                draws += 1;
            }
            Event::Mutated { kind, index, mutator, .. } => {
                muts += 1;
                if rate == 0.0 && viol.is_none() {
                    viol = Some((
                        format!("rate0_mutated:{:?}:{}", kind, mutator),
                        format!("rate 0.0: a {:?} value was mutated by {} (mutator #{})", kind, mutator, index),
                    ));
                }
                if rate == 1.0 {
                    let (k, empty) = pending.unwrap_or((*kind, false));
                    let first = cfg.mutators.iter().position(|m| applicable(*m, k, empty));
                    if first != Some(*index) && viol.is_none() {
                        viol = Some((
                            format!("rate1_not_first:{:?}:{}", kind, mutator),
                            format!(
                                "rate 1.0: {:?} value mutated by mutator #{} ({}) but the first applicable one is #{:?}",
                                kind, index, mutator, first
                            ),
                        ));
                    }
                }
                pending = None;
            }
            Event::Rewrite { mutator, index, .. } => {
                acc.count("rewrites", 1);
                if rate == 0.0 && viol.is_none() {
                    viol = Some((
                        format!("rate0_rewrite:{}", mutator),
                        format!("rate 0.0: emitted bytes were rewritten by {} (mutator #{})", mutator, index),
                    ));
                }
            }
            _ => {}
        }
    }
    finish_pending(&mut pending, &mut viol);
    // every emitted value must have passed through the mutation layer: compare the number of
    // Draw events per kind with the value opcodes of that family in the output (safe mode only:
    // unsafe TypeConfusion replaces opcodes after the fact)
    if viol.is_none() && rate == 1.0 && !cfg.unsafe_mut && !cfg.mutator_flag() {
        if let Ok(l) = lex(bytes) {
            let fam = |names: &[&str]| l.ins.iter().filter(|i| names.contains(&i.op.name)).count() as u64;
            let emitted = [
                (ValueKind::Int, fam(&["INT", "LONG", "LONG1", "LONG4", "BININT", "BININT1", "BININT2"])),
                (ValueKind::Float, fam(&["FLOAT", "BINFLOAT"])),
                (ValueKind::String, fam(&["STRING", "UNICODE", "SHORT_BINUNICODE", "BINUNICODE", "BINUNICODE8"])),
                (ValueKind::Bytes, fam(&["BINSTRING", "SHORT_BINSTRING", "SHORT_BINBYTES", "BINBYTES", "BINBYTES8", "BYTEARRAY8"])),
                (ValueKind::Memo, fam(&["GET", "BINGET", "LONG_BINGET"])),
            ];
            for (k, n_out) in emitted {
                let n_draw = res.events.iter().filter(|e| matches!(e, Event::Draw { kind, .. } if *kind == k)).count() as u64;
                let any_applicable = cfg.mutators.iter().any(|m| applicable(*m, k, false) || applicable(*m, k, true));
                if any_applicable && n_draw < n_out {
                    viol = Some((
                        format!("rate1_bypassed:{:?}", k),
                        format!(
                            "rate 1.0: the output contains {} {:?} values but only {} reached the mutation layer",
                            n_out, k, n_draw
                        ),
                    ));
                    break;
                }
                acc.count("emitted_values_matched_to_draws", n_out);
            }
        }
    }
    if let Some((sig, msg)) = viol {
        let mode = match cfg.entropy {
            Entropy::Seed(_) => "prng",
            Entropy::Bytes(_) => "bytes",
        };
        acc.violate(Violation {
            property: "C15".into(),
            signature: format!("C15:gen:{}:{}", sig, mode),
            message: format!("{} [{}]", msg, cfg.short()),
            replay: replay_case("C15", cfg, Some(bytes), &msg, json!({"layer": "generation"})),
        });
    }
    acc.count("value_draws_seen", draws);
    acc.count("mutations_seen", muts);
    if rate == 0.0 {
        acc.count("cases_rate0", 1);
        acc.count("draws_at_rate0", draws);
    } else if rate == 1.0 {
        acc.count("cases_rate1", 1);
        acc.count("draws_at_rate1", draws);
    }
    let h = hash128(bytes);
    acc.ins_distinct(h);
    if draws > 0 {
        acc.ins_nontrivial(h);
    }
    if acc.samples.len() < 3 && draws > 2 {
        let mut s = json!({"config": cfg.to_json(), "draws": draws, "mutations": muts});
        s["len"] = json!(bytes.len());
        acc.sample(s);
    }
}

pub fn c15(thorough: bool, seed: u64) -> CheckOutput {
    let n = if thorough { 1_000_000 } else { 80_000 };
    let mut sp = Space::full();
    sp.rates = vec![0.0, 1.0];
    sp.ranges = vec![(10, 50), (60, 300), (2, 9), (0, 1)];
    sp.bytes_mode_share = 60;
    sp.flip_share = 25;
    let tr = verif::Config {
        snapshots: false,
        choices: false,
        step_limit: 0,
    };
    let mut acc = bulk(n, seed, &sp, Some(tr), check_c15);
    // long pickles at rate 0 and 1 (memo beyond 256 entries, LONG_BINGET / BINGET side by side,
    // long strings): every value of every opcode family still has to pass the mutation layer
    let n_long = if thorough { 1200 } else { 120 };
    let long = par_run(
        n_long,
        Acc::new,
        |i, acc| {
            let mut rng = Rng::new(mix(seed ^ 0xC15, i as u64));
            let t = 3000 + rng.below(3000) as usize;
            let cfg = Config {
                min: t,
                max: t + 100,
                mutators: match i % 4 {
                    0 => vec![Mk::Memoindex],
                    1 => vec![Mk::Offbyone, Mk::Stringlen],
                    2 => ALL_MK.iter().copied().filter(|m| *m != Mk::Typeconfusion).collect(),
                    _ => subset(rng.below(128) as u32),
                },
                rate: if i % 8 == 7 { 0.0 } else { 1.0 },
                order: (i % 7) as u8,
                ..Config::default_for((5 - i % 6) as u8, if i % 3 == 0 { Entropy::Bytes(rng.bytes(40_000)) } else { Entropy::Seed(rng.next()) })
            };
            let res = run_case(&cfg, Some(tr));
            check_c15(&cfg, &res, acc);
            acc.count("long_pickles_3000_plus_opcodes", 1);
        },
        |a, b| a.merge(b),
    );
    acc.merge(long);
    // the rate as a front end delivers it: the action wrapper's mutation_rate input in every
    // spelling of the two extremes (a workflow's `mutation_rate: 0` arrives as "0"); the file must be
    // the library's output for rate 0.0 / 1.0, whose Draw/Mutated log is judged above
    if std::env::var("PFV_CLI").is_ok() {
        let spellings: [(&str, f64); 8] = [("0", 0.0), ("0.0", 0.0), ("0.", 0.0), (".0", 0.0), ("0.00", 0.0), ("1", 1.0), ("1.0", 1.0), ("1.", 1.0)];
        let fe = par_run(
            spellings.len() * 6,
            Acc::new,
            |i, acc| {
                let (txt, rate) = spellings[i / 6];
                let proto = (i % 6) as u8;
                let s = 500 + i as u64;
                let muts = vec![Mk::Boundary, Mk::Bitflip, Mk::Offbyone, Mk::Stringlen, Mk::Character];
                let inputs: Vec<(&str, String)> = vec![
                    ("INPUT_PROTOCOL", proto.to_string()),
                    ("INPUT_SEED", s.to_string()),
                    ("INPUT_MUTATION_RATE", txt.to_string()),
                    ("INPUT_MUTATORS", muts.iter().map(|m| m.name()).collect::<Vec<_>>().join(",")),
                ];
                let cfg = Config {
                    mutators: muts.clone(),
                    rate,
                    ..Config::default_for(proto, Entropy::Seed(s))
                };
                let want = match run_case(&cfg, Some(tr)) {
                    CaseResult { outcome: Outcome::Ok(b), events } => {
                        check_c15(&cfg, &CaseResult { outcome: Outcome::Ok(b.clone()), events }, acc);
                        b
                    }
                    _ => return,
                };
                match action_batch(&inputs, 1) {
                    Err(m) => acc.inconclusive.push(format!("action wrapper run failed in the C15 front-end layer: {}", m)),
                    Ok(files) => {
                        acc.count("wrapper_rate_spellings_compared", 1);
                        if files.first() != Some(&want) {
                            let msg = format!(
                                "action wrapper with mutation_rate=\"{}\" (protocol {}, seed {}, five mutators) did not write the library's output for rate {}: the requested rate did not reach the generator",
                                txt, proto, s, rate
                            );
                            acc.violate(Violation {
                                property: "C15".into(),
                                signature: format!("C15:wrapper_rate:{}", if rate == 0.0 { "rate0" } else { "rate1" }),
                                message: msg.clone(),
                                replay: json!({"kind": "c15-wrapper", "property": "C15", "mutation_rate": txt, "protocol": proto, "seed": s, "message": msg}),
                            });
                        }
                    }
                }
            },
            |a, b| a.merge(b),
        );
        acc.merge(fe);
    }
    // direct mutator calls (W10)
    crate::mon_api::c15_direct(thorough, seed, &mut acc);
    for k in ["cases_rate0", "cases_rate1"] {
        if acc.get(k) < 1000 {
            acc.inconclusive.push(format!("too few {}", k));
        }
    }
    if acc.get("draws_at_rate0") < 10_000 || acc.get("draws_at_rate1") < 10_000 {
        acc.inconclusive.push("too few value draws observed (hook stream empty?)".into());
    }
    CheckOutput {
        acc,
        rule: "cases = configuration matrix (all 128 mutator subsets incl. permuted lists, safe and unsafe, both entropy modes incl. hostile-double byte strings) at rate 0.0 and 1.0 with the Draw/Mutated/Rewrite hook log + direct calls of every mutator method on harness-built entropy sources (hostile leading doubles, exhausted input); distinct = distinct output bytes / distinct (mutator,value kind,entropy) call; non-trivial = at least one value reached the mutation layer".into(),
        extra: json!({}),
        assumptions: std_assumptions(),
        exhaustive: None,
    }
}
