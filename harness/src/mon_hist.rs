//! History / process level monitors: C07 determinism, C08 reuse, C09 totality,
//! C14 leaks; plus replay and the child-process entry point.

use std::alloc::{GlobalAlloc, Layout, System};
use std::cell::Cell;
use std::collections::BTreeMap;
use std::process::{Command, Stdio};
use std::time::{Duration, Instant};

use pickle_fuzzer::verif;
use serde_json::{json, Value};

use crate::analysis::analyze;
use crate::common::*;
use crate::workload::*;
use crate::CheckOutput;

// ================================================================ O4 counting allocator (per thread, no address tracking)

thread_local! {
    static LIVE_BYTES: Cell<isize> = const { Cell::new(0) };
    static LIVE_BLOCKS: Cell<isize> = const { Cell::new(0) };
}

pub struct CountingAlloc;

unsafe impl GlobalAlloc for CountingAlloc {
    unsafe fn alloc(&self, l: Layout) -> *mut u8 {
        let p = System.alloc(l);
        if !p.is_null() {
            let _ = LIVE_BYTES.try_with(|c| c.set(c.get() + l.size() as isize));
            let _ = LIVE_BLOCKS.try_with(|c| c.set(c.get() + 1));
        }
        p
    }
    unsafe fn dealloc(&self, p: *mut u8, l: Layout) {
        System.dealloc(p, l);
        let _ = LIVE_BYTES.try_with(|c| c.set(c.get() - l.size() as isize));
        let _ = LIVE_BLOCKS.try_with(|c| c.set(c.get() - 1));
    }
    unsafe fn alloc_zeroed(&self, l: Layout) -> *mut u8 {
        let p = System.alloc_zeroed(l);
        if !p.is_null() {
            let _ = LIVE_BYTES.try_with(|c| c.set(c.get() + l.size() as isize));
            let _ = LIVE_BLOCKS.try_with(|c| c.set(c.get() + 1));
        }
        p
    }
    unsafe fn realloc(&self, p: *mut u8, l: Layout, new_size: usize) -> *mut u8 {
        let q = System.realloc(p, l, new_size);
        if !q.is_null() {
            let _ = LIVE_BYTES.try_with(|c| c.set(c.get() + new_size as isize - l.size() as isize));
        }
        q
    }
}

#[global_allocator]
static GLOBAL: CountingAlloc = CountingAlloc;

/// verdict over four live-heap readings taken after ever larger numbers of generations with no
/// generator alive: never shrinking, at least 1 KiB more at the end than at the first reading (which
/// is already thousands of generations past any warm-up), and growth in at least two of the three
/// intervals (a single late one-off initialisation is not growth; a table that doubles may skip one
/// interval). On the repaired tree the four readings are equal to the byte.
fn grows_on(l: [isize; 4]) -> bool {
    let steps = (l[1] > l[0]) as u8 + (l[2] > l[1]) as u8 + (l[3] > l[2]) as u8;
    l[0] <= l[1] && l[1] <= l[2] && l[2] <= l[3] && l[3] - l[0] >= 1024 && steps >= 2
}

fn live() -> (isize, isize) {
    (LIVE_BYTES.with(|c| c.get()), LIVE_BLOCKS.with(|c| c.get()))
}

// ================================================================ C14

#[derive(Debug, Clone, Copy, PartialEq)]
enum Life {
    Drop,
    ResetThenDrop,
    TwiceThenDrop,
}

/// live-heap delta of this thread across construct -> generate -> drop
fn leak_delta(cfg: &Config, life: Life) -> (isize, isize) {
    let before = live();
    {
        let mut g = cfg.build();
        let out = gen_once(&mut g, &cfg.entropy);
        drop(out);
        match life {
            Life::Drop => {}
            Life::ResetThenDrop => g.reset(),
            Life::TwiceThenDrop => {
                g.reset();
                let out = gen_once(&mut g, &cfg.entropy);
                drop(out);
            }
        }
        drop(g);
    }
    let after = live();
    (after.0 - before.0, after.1 - before.1)
}

fn check_c14(cfg: &Config, life: Life, acc: &mut Acc) {
    acc.evaluations += 1;
    let d = leak_delta(cfg, life);
    if d != (0, 0) {
        // must reproduce on two immediate re-executions (one-time lazy initialisation cannot)
        let d2 = leak_delta(cfg, life);
        let d3 = leak_delta(cfg, life);
        if d2 != (0, 0) && d3 != (0, 0) {
            // describe the output for the witness (outside the measured window)
            let res = run_case(cfg, None);
            let (cyc, alias, ops) = match &res.outcome {
                Outcome::Ok(b) => {
                    let a = analyze(b, true);
                    (a.cycles, a.alias_inserts, a.ins.len())
                }
                _ => (0, 0, 0),
            };
            let msg = format!(
                "live heap after drop differs from before construction by {} bytes / {} blocks (reproduced 3x: {:?} {:?} {:?}); lifecycle {:?}; output has {} opcodes, reference machine saw {} aliasing insertions / {} identity cycles",
                d2.0, d2.1, d, d2, d3, life, ops, alias, cyc
            );
            acc.violate(Violation {
                property: "C14".into(),
                signature: format!("C14:leak:P{}:{}", cfg.proto, if cfg.unsafe_mut { "unsafe" } else { "safe" }),
                message: format!("{} [{}]", msg, cfg.short()),
                replay: json!({"kind": "case", "property": "C14", "config": cfg.to_json(), "life": format!("{:?}", life),
                    "message": msg, "witness": {"delta_bytes": d2.0, "delta_blocks": d2.1}}),
            });
        } else {
            acc.count("one_off_deltas_not_reproduced(lazy init)", 1);
        }
    }
    acc.count(&format!("lifecycle_{:?}", life), 1);
}

pub fn c14(thorough: bool, seed: u64) -> CheckOutput {
    let n = if thorough { 1_200_000 } else { 90_000 };
    let sp = Space::full();
    // warm-up: initialise the process-wide stdlib table before measuring
    for p in 0..6u8 {
        let _ = run_case(&Config::default_for(p, Entropy::Seed(1)), None);
    }
    // The three single-thread growth blocks run FIRST, while the process is pristine: a process-wide
    // table filled by the parallel blocks below would otherwise already be large, and a table that
    // doubles shows one step per doubling of what it holds.
    let mut pre = Acc::new();
    // the same question with values that are NEW every time (ranges incl. inverted ones, seeds,
    // rates, buffer sizes, mutator lists): state keyed by caller-supplied values would saturate in
    // the repeated cycle above but grows here. One thread alone (process-wide state would otherwise
    // be charged to whichever thread happens to resize it); four stages of 500 / 2000 / 4000 / 8000
    // novel configurations, every generator dropped; the live heap must not grow stage after stage
    // (a bounded cache would stop growing before the last stage).
    let novel_acc = par_run(
        1,
        Acc::new,
        |_i, acc| {
            let mut k = 0usize;
            let mut inv = (1usize, 0usize); // next inverted pair (min, max) with max < min
            let mut stage = |n: usize| {
                // no generator is alive when the heap is read: the long-lived one lives for a stage
                let mut reused = Config::default_for(3, Entropy::Seed(1)).build();
                for _ in 0..n {
                    k += 1;
                    let (min, max) = if k % 2 == 0 {
                        let p = inv;
                        inv = if inv.1 + 1 < inv.0 { (inv.0, inv.1 + 1) } else { (inv.0 + 1, 0) };
                        p
                    } else {
                        ((k / 2) % 120, 120 + (k / 2) / 120)
                    };
                    let cfg = Config {
                        min,
                        max,
                        mutators: subset((k % 128) as u32),
                        rate: (k % 20_011) as f64 / 20_011.0,
                        bufsize: if k % 5 == 0 { Some(64 + k) } else { None },
                        unsafe_mut: k % 7 == 0,
                        ext: k % 3 == 0,
                        buf: k % 4 == 0,
                        order: (k % 5) as u8,
                        ..Config::default_for((k % 6) as u8, Entropy::Seed((k as u64).wrapping_mul(0x9E37_79B9_7F4A_7C15)))
                    };
                    if k % 3 == 0 {
                        // a long-lived generator reconfigured through its public fields, as the
                        // Python wrapper's set_opcode_range does
                        reused.min_opcodes = cfg.min;
                        reused.max_opcodes = cfg.max;
                        reused.seed = Some(k as u64);
                        reused.mutation_rate = cfg.rate;
                        let out = gen_once(&mut reused, &cfg.entropy);
                        drop(out);
                        reused.reset();
                    } else {
                        let mut g = cfg.build();
                        let out = gen_once(&mut g, &cfg.entropy);
                        drop(out);
                        drop(g);
                    }
                }
                drop(reused);
            };
            acc.evaluations += 1;
            stage(500);
            let l0 = live();
            stage(2000);
            let l1 = live();
            stage(4000);
            let l2 = live();
            stage(8000);
            let l3 = live();
            acc.count("novel_value_generations", 14_500);
            acc.count("novel_value_runs", 1);
            if grows_on([l0.0, l1.0, l2.0, l3.0]) {
                let msg = format!(
                    "live heap of the generating thread keeps growing with the number of DISTINCT configurations seen (ranges incl. inverted ones, seeds, rates, buffer sizes) although every generator is dropped or reset: {} bytes after 500 configurations, {} after 2500, {} after 6500, {} after 14500",
                    l0.0, l1.0, l2.0, l3.0
                );
                acc.violate(Violation {
                    property: "C14".into(),
                    signature: "C14:unbounded_growth:novel_values".into(),
                    message: msg.clone(),
                    replay: json!({"kind": "c14-growth", "property": "C14", "seed": seed, "live_bytes": [l0.0, l1.0, l2.0, l3.0], "message": msg}),
                });
            }
        },
        |a, b| a.merge(b),
    );
    pre.merge(novel_acc);
    // generate() WITHOUT a seed (entropy from the operating system): the only entry point the
    // other blocks never take, because its output cannot be compared with anything. Its memory
    // can: 3 000 unseeded generations on one thread, every generator dropped, live heap read after
    // 100 / 400 / 1 200 / 3 000 of them.
    let unseeded_acc = par_run(
        1,
        Acc::new,
        |_i, acc| {
            let mut k = 0usize;
            let mut stage = |n: usize| {
                for _ in 0..n {
                    k += 1;
                    let cfg = Config {
                        min: 5,
                        max: 30 + k % 40,
                        mutators: if k % 2 == 0 { ALL_MK.to_vec() } else { vec![] },
                        unsafe_mut: k % 4 == 0,
                        order: (k % 5) as u8,
                        ..Config::default_for((k % 6) as u8, Entropy::Seed(0))
                    };
                    let mut g = cfg.build();
                    g.seed = None;
                    let out = g.generate();
                    drop(out);
                    if k % 3 == 0 {
                        g.reset();
                        let out = g.generate();
                        drop(out);
                    }
                    drop(g);
                }
            };
            acc.evaluations += 1;
            stage(100);
            let l0 = live();
            stage(300);
            let l1 = live();
            stage(800);
            let l2 = live();
            stage(1800);
            let l3 = live();
            acc.count("unseeded_generations", 4000);
            if grows_on([l0.0, l1.0, l2.0, l3.0]) {
                let msg = format!(
                    "live heap of the generating thread keeps growing with the number of UNSEEDED generate() calls although every generator is dropped: {} bytes after 100 generators, {} after 400, {} after 1200, {} after 3000",
                    l0.0, l1.0, l2.0, l3.0
                );
                acc.violate(Violation {
                    property: "C14".into(),
                    signature: "C14:unbounded_growth:unseeded".into(),
                    message: msg.clone(),
                    replay: json!({"kind": "c14-growth", "property": "C14", "seed": seed, "live_bytes": [l0.0, l1.0, l2.0, l3.0], "message": msg}),
                });
            }
        },
        |a, b| a.merge(b),
    );
    pre.merge(unseeded_acc);
    // sheer volume with the opt-in opcodes on: a process-wide table that is keyed by emitted values
    // and reserves a large capacity up front shows nothing until the reservation is used up.
    // 40 000 (thorough: 400 000) seeded default-range generations for protocols 2..5 with EXT and
    // buffer opcodes enabled (about 300 000 distinct extension codes), one thread, every generator
    // dropped, live heap read after 1/16, 1/4, 1/2 and all of them.
    let n_vol: usize = if thorough { 400_000 } else { 40_000 };
    let volume_acc = par_run(
        1,
        Acc::new,
        |_i, acc| {
            let mut k = 0u64;
            let mut stage = |n: usize| {
                for _ in 0..n {
                    k += 1;
                    let cfg = Config {
                        ext: true,
                        buf: true,
                        ..Config::default_for(2 + (k % 4) as u8, Entropy::Seed(k.wrapping_mul(0xD6E8_FEB8_6659_FD93) ^ seed))
                    };
                    let mut g = cfg.build();
                    let out = gen_once(&mut g, &cfg.entropy);
                    drop(out);
                    drop(g);
                }
            };
            acc.evaluations += 1;
            stage(n_vol / 16);
            let l0 = live();
            stage(n_vol / 4 - n_vol / 16);
            let l1 = live();
            stage(n_vol / 4);
            let l2 = live();
            stage(n_vol / 2);
            let l3 = live();
            acc.count("volume_generations_with_optin_opcodes", n_vol as u64);
            for (j, l) in [l0, l1, l2, l3].iter().enumerate() {
                acc.count(&format!("volume_live_bytes_at_checkpoint_{}", j), l.0.max(0) as u64);
            }
            if grows_on([l0.0, l1.0, l2.0, l3.0]) {
                let msg = format!(
                    "live heap of the generating thread keeps growing with the number of pickles generated with the opt-in opcodes enabled although every generator is dropped: {} bytes after {} generators, {} after {}, {} after {}, {} after {}",
                    l0.0, n_vol / 16, l1.0, n_vol / 4, l2.0, n_vol / 2, l3.0, n_vol
                );
                acc.violate(Violation {
                    property: "C14".into(),
                    signature: "C14:unbounded_growth:volume".into(),
                    message: msg.clone(),
                    replay: json!({"kind": "c14-growth", "property": "C14", "seed": seed, "live_bytes": [l0.0, l1.0, l2.0, l3.0], "message": msg}),
                });
            }
        },
        |a, b| a.merge(b),
    );
    pre.merge(volume_acc);
    let mut acc = par_run(
        n,
        Acc::new,
        |i, acc| {
            let cfg = matrix_case(i, seed, &sp);
            let life = match i % 5 {
                0 => Life::ResetThenDrop,
                1 => Life::TwiceThenDrop,
                _ => Life::Drop,
            };
            check_c14(&cfg, life, acc);
            // coverage accounting on a sample: did the output contain aliasing insertions / cycles?
            if i % 8 == 0 {
                let res = run_case(&cfg, None);
                if let Outcome::Ok(b) = &res.outcome {
                    let a = analyze(b, true);
                    let h = hash128(b);
                    acc.ins_distinct(h);
                    if a.alias_inserts > 0 {
                        acc.count("analysed_outputs_with_aliasing_insertion", 1);
                        acc.ins_nontrivial(h);
                    }
                    if a.cycles > 0 {
                        acc.count("analysed_outputs_with_identity_cycle", 1);
                    }
                    acc.count("analysed_outputs", 1);
                    if acc.samples.len() < 3 && a.cycles > 0 {
                        acc.sample(sample_of(&cfg, b, &a.op_names()));
                    }
                }
            }
        },
        |a, b| a.merge(b),
    );
    // alias-heavy steering (W5): DUP then insert into self, directly and through tuples / BUILD
    let n_steer = if thorough { 6000 } else { 600 };
    let steer_acc = par_run(
        n_steer,
        Acc::new,
        |i, acc| {
            let proto = (i % 6) as u8;
            let base = Config::default_for(proto, Entropy::Bytes(vec![]));
            let cfg = alias_heavy(&base, mix(seed ^ 0xA11A5, i as u64));
            check_c14(&cfg, Life::Drop, acc);
            let res = run_case(&cfg, None);
            if let Outcome::Ok(b) = &res.outcome {
                let a = analyze(b, true);
                let h = hash128(b);
                acc.ins_distinct(h);
                acc.count("steered_alias_heavy_cases", 1);
                if a.alias_inserts > 0 {
                    acc.ins_nontrivial(h);
                    acc.count("steered_outputs_with_aliasing_insertion", 1);
                }
                if a.cycles > 0 {
                    acc.count("steered_outputs_with_identity_cycle", 1);
                }
                if acc.samples.len() < 2 && a.cycles > 0 {
                    acc.sample(sample_of(&cfg, b, &a.op_names()));
                }
            }
        },
        |a, b| a.merge(b),
    );
    acc.merge(pre);
    acc.merge(steer_acc);
    // recipe-steered block: typed opcodes and aliases stored back into their own object, incl.
    // aliases that travel through the memo
    let n_rec = if thorough { 12_000 } else { 1_500 };
    let rec_acc = par_run(
        n_rec,
        Acc::new,
        |i, acc| {
            let proto = (i % 6) as u8;
            let base = Config::default_for(proto, Entropy::Bytes(vec![]));
            let cfg = crate::mon_trace::object_heavy(&base, mix(seed ^ 0x2EC1, i as u64));
            check_c14(&cfg, Life::Drop, acc);
            acc.count("recipe_steered_cases", 1);
            if i % 4 == 0 {
                let res = run_case(&cfg, None);
                if let Outcome::Ok(b) = &res.outcome {
                    let a = analyze(b, true);
                    if a.cycles > 0 {
                        acc.count("recipe_steered_outputs_with_identity_cycle", 1);
                        acc.ins_nontrivial(hash128(b));
                    }
                    acc.ins_distinct(hash128(b));
                }
            }
        },
        |a, b| a.merge(b),
    );
    acc.merge(rec_acc);
    // deep-state block: thousands of nested groups / aliases / memo entries alive at drop time
    let deep = crate::mon_trace::deep_block(
        if thorough { 1200 } else { 120 },
        seed,
        verif::Config {
            snapshots: false,
            choices: false,
            step_limit: 0,
        },
        &[4200],
        &|cfg: &Config, _res: &CaseResult, acc: &mut Acc| {
            check_c14(cfg, Life::Drop, acc);
            acc.count("deep_state_cases", 1);
        },
    );
    acc.merge(deep);
    // long histories (W7): one generator reused with reset(), as the Python wrapper does; then dropped
    let n_hist = if thorough { 64 } else { 16 };
    let gens_per = if thorough { 20_000 } else { 4_000 };
    let hist_acc = par_run(
        n_hist,
        Acc::new,
        |i, acc| {
            let proto = (i % 6) as u8;
            let run = |acc: &mut Acc, record: bool| -> (isize, isize, Vec<isize>) {
                // the monitor's own buffer is allocated outside the measured window
                let mut samples: Vec<isize> = Vec::with_capacity(gens_per / 500 + 1);
                let before = live();
                {
                    let cfg0 = Config::default_for(proto, Entropy::Seed(0));
                    let mut g = cfg0.build();
                    for k in 0..gens_per {
                        let s = mix(seed ^ 0x1157, (i * gens_per + k) as u64);
                        let out = if k % 2 == 0 {
                            g.seed = Some(s);
                            gen_once(&mut g, &Entropy::Seed(s))
                        } else {
                            let mut r = Rng::new(s);
                            let b = r.bytes(600);
                            gen_once(&mut g, &Entropy::Bytes(b))
                        };
                        drop(out);
                        g.reset();
                        if k % 500 == 499 {
                            samples.push(live().0 - before.0);
                        }
                    }
                    drop(g);
                }
                let after = live();
                if record {
                    acc.count("history_generations", gens_per as u64);
                }
                (after.0 - before.0, after.1 - before.1, samples)
            };
            acc.evaluations += 1;
            let (db, dk, samples) = run(acc, true);
            if (db, dk) != (0, 0) {
                let (db2, dk2, _) = run(acc, false);
                if (db2, dk2) != (0, 0) {
                    let msg = format!(
                        "after {} generate/reset cycles on one generator and dropping it, {} bytes / {} blocks stay live (re-run: {} / {}); live bytes at every 500th quiescent point: {:?}",
                        gens_per, db, dk, db2, dk2, &samples[..samples.len().min(12)]
                    );
                    acc.violate(Violation {
                        property: "C14".into(),
                        signature: format!("C14:history_leak:P{}", proto),
                        message: msg.clone(),
                        replay: json!({"kind": "c14-history", "property": "C14", "proto": proto, "generations": gens_per,
                            "seed": seed, "history_index": i, "message": msg}),
                    });
                }
            }
            acc.count("long_histories", 1);
        },
        |a, b| a.merge(b),
    );
    acc.merge(hist_acc);
    // bounded memory over a long-running process: the SAME cycle of (configuration, entropy) pairs is
    // generated once (after which every legitimate cache or high-water-mark buffer is saturated) and
    // then again and again; with all generators dropped, the thread's live heap after 1, 4 and 10
    // passes must be identical - growth that depends on how many pickles were produced is a leak
    let n_growth = if thorough { 12 } else { 6 };
    let growth_acc = par_run(
        n_growth,
        Acc::new,
        |i, acc| {
            let sp = Space::full();
            let cycle_len = if thorough { 600 } else { 250 };
            let cycle: Vec<Config> = (0..cycle_len)
                .map(|k| {
                    let mut c = matrix_case(k * 13 + i * 7919, seed ^ 0x6067, &sp);
                    if c.min > 400 || c.max > 400 {
                        c.min = 60;
                        c.max = 300;
                    }
                    c.warmup = None;
                    if k % 2 == 0 && c.mutators.is_empty() {
                        c.mutators = ALL_MK.to_vec();
                    }
                    c
                })
                .collect();
            let reuse_one = i % 2 == 1;
            let pass = |cycle: &Vec<Config>| {
                if reuse_one {
                    // one generator for the whole pass, reconfigured through its public fields
                    let mut g = cycle[0].build();
                    for c in cycle {
                        g.min_opcodes = c.min;
                        g.max_opcodes = c.max;
                        if let Entropy::Seed(s) = c.entropy {
                            g.seed = Some(s);
                        }
                        let out = gen_once(&mut g, &c.entropy);
                        drop(out);
                        g.reset();
                    }
                    drop(g);
                } else {
                    for c in cycle {
                        let mut g = c.build();
                        let out = gen_once(&mut g, &c.entropy);
                        drop(out);
                        drop(g);
                    }
                }
            };
            acc.evaluations += 1;
            pass(&cycle);
            let l1 = live();
            for _ in 0..3 {
                pass(&cycle);
            }
            let l4 = live();
            for _ in 0..6 {
                pass(&cycle);
            }
            let l10 = live();
            // ... and with ONE generator that lives through all passes and is only ever reset(): what a
            // generation allocated must be released by the reset, so once the buffers have reached
            // their high-water marks (first pass) the live heap after a reset stays where it is
            if reuse_one {
                let mut g = cycle[0].build();
                let mut one_pass = |g: &mut pickle_fuzzer::Generator| {
                    for c in &cycle {
                        g.min_opcodes = c.min;
                        g.max_opcodes = c.max;
                        if let Entropy::Seed(s) = c.entropy {
                            g.seed = Some(s);
                        }
                        let out = gen_once(g, &c.entropy);
                        drop(out);
                        g.reset();
                    }
                };
                one_pass(&mut g);
                one_pass(&mut g);
                let r2 = live();
                for _ in 0..3 {
                    one_pass(&mut g);
                }
                let r5 = live();
                for _ in 0..5 {
                    one_pass(&mut g);
                }
                let r10 = live();
                drop(g);
                acc.count("growth_long_lived_generator_runs", 1);
                if r5.0 > r2.0 && r10.0 > r5.0 && r10.0 - r2.0 >= 1024 {
                    let msg = format!(
                        "live heap held by ONE generator that is reset() after every pickle keeps growing although the same {} (range, entropy) pairs are repeated: {} bytes after 2 passes, {} after 5, {} after 10 (measured right after reset())",
                        cycle.len(),
                        r2.0,
                        r5.0,
                        r10.0
                    );
                    acc.violate(Violation {
                        property: "C14".into(),
                        signature: "C14:unbounded_growth:long_lived_generator".into(),
                        message: msg.clone(),
                        replay: json!({"kind": "c14-growth", "property": "C14", "seed": seed, "run": i, "cycle_len": cycle.len(),
                            "live_bytes": [r2.0, r5.0, r10.0], "message": msg,
                            "first_configs": cycle.iter().take(3).map(|c| c.to_json()).collect::<Vec<_>>()}),
                    });
                }
            }
            acc.count("growth_cycles_generations", (10 * cycle.len()) as u64);
            acc.count("growth_runs", 1);
            if l10.0 > l1.0 && l4.0 >= l1.0 && l10.0 >= l4.0 && l10.0 - l1.0 >= 64 {
                let msg = format!(
                    "live heap of the generating thread grows with the number of pickles although the same {} (configuration, entropy) pairs are repeated and every generator is dropped: {} bytes after 1 pass, {} after 4, {} after 10 ({} mode)",
                    cycle.len(),
                    l1.0,
                    l4.0,
                    l10.0,
                    if reuse_one { "one reused generator per pass" } else { "fresh generator per pickle" }
                );
                acc.violate(Violation {
                    property: "C14".into(),
                    signature: format!("C14:unbounded_growth:{}", if reuse_one { "reused" } else { "fresh" }),
                    message: msg.clone(),
                    replay: json!({"kind": "c14-growth", "property": "C14", "seed": seed, "run": i, "cycle_len": cycle.len(),
                        "live_bytes": [l1.0, l4.0, l10.0], "message": msg,
                        "first_configs": cycle.iter().take(3).map(|c| c.to_json()).collect::<Vec<_>>()}),
                });
            }
        },
        |a, b| a.merge(b),
    );
    acc.merge(growth_acc);
    let cyc = acc.get("analysed_outputs_with_identity_cycle") + acc.get("steered_outputs_with_identity_cycle");
    if cyc < 20 {
        acc.inconclusive.push(format!("only {} analysed outputs contained an identity cycle (the leak-prone pattern)", cyc));
    }
    CheckOutput {
        acc,
        rule: "cases = full configuration matrix (three lifecycles: drop / reset+drop / generate twice+drop), alias-heavy steered pickles, long generate/reset histories on one generator, and repeated passes over one fixed cycle of cases (live heap after 1, 4 and 10 passes must be equal) ; oracle = per-thread counting allocator (live bytes and blocks before Generator::new vs after drop; a non-zero delta must reproduce 3x); distinct = distinct analysed output bytes; non-trivial = the reference machine (object identity on) saw an object stored into a container that reaches it".into(),
        extra: json!({}),
        assumptions: vec![
            "all allocations of a generation happen on the calling thread (no threads in the library)".into(),
            "the event log is off during measurement; the allocator records no addresses".into(),
        ],
        exhaustive: None,
    }
}

/// W5 alias-heavy policy: build containers, DUP them and insert them into themselves
pub fn alias_heavy(base: &Config, salt: u64) -> Config {
    let mut rng = Rng::new(salt);
    let steps = 12 + rng.below(40) as usize;
    let want: Vec<u8> = vec![
        0x5d, // EMPTY_LIST
        0x7d, // EMPTY_DICT
        0x8f, // EMPTY_SET
        0x6c, // LIST (needs mark)
        0x64, // DICT
    ];
    steer(base, steps, 2, salt, |_d, p| {
        let has = |c: u8| p.valid.iter().position(|v| *v == c);
        let n = p.stack.len();
        let top = p.stack.last().copied();
        let r = rng.below(100);
        // inserting ops when offered (most of the time)
        for c in [0x61u8, 0x73, 0x65, 0x75, 0x90, 0x62] {
            if r < 70 {
                if let Some(j) = has(c) {
                    if rng.below(3) != 0 {
                        return j;
                    }
                }
            }
        }
        // DUP a container on top
        if let (Some(t), Some(j)) = (top, has(0x32)) {
            if matches!(t, 1 | 2 | 3 | 5 | 15) && r < 60 {
                return j;
            }
        }
        // MARK after a container (for APPENDS/SETITEMS/ADDITEMS)
        if let (Some(t), Some(j)) = (top, has(0x28)) {
            if matches!(t, 1 | 2 | 3) && r < 30 {
                return j;
            }
        }
        if n < 2 || r < 50 {
            let c = *rng.pick(&want);
            if let Some(j) = has(c) {
                return j;
            }
        }
        // TUPLE1 / TUPLE2 to hide an alias inside a tuple
        for c in [0x85u8, 0x86] {
            if r > 85 {
                if let Some(j) = has(c) {
                    return j;
                }
            }
        }
        rng.below(p.valid.len() as u64) as usize
    })
}

// ================================================================ C08

#[derive(Debug, Clone)]
enum Call {
    Gen,
    Arb(usize),
    Reset,
    /// a write to a public configuration field between calls (the configuration the next call
    /// "depends only on" is then the written one)
    Set(u8),
}

const N_SETS: u8 = 8;

fn apply_set(g: &mut pickle_fuzzer::Generator, k: u8) {
    match k {
        0 => g.allow_ext_opcodes = !g.allow_ext_opcodes,
        1 => g.allow_buffer_opcodes = !g.allow_buffer_opcodes,
        2 => {
            let v = (g.state.version as usize + 1) % 6;
            g.state.version = pickle_fuzzer::Version::try_from(v).expect("proto");
        }
        3 => {
            let v = (g.state.version as usize + 5) % 6;
            g.state.version = pickle_fuzzer::Version::try_from(v).expect("proto");
        }
        4 => {
            g.min_opcodes = g.min_opcodes / 2 + 3;
            g.max_opcodes = g.min_opcodes + 40;
        }
        5 => g.mutation_rate = if g.mutation_rate == 1.0 { 0.25 } else { 1.0 },
        6 => g.unsafe_mutations = !g.unsafe_mutations,
        _ => {
            g.allow_ext_opcodes = true;
            g.allow_buffer_opcodes = true;
        }
    }
}

fn history_name(h: &[Call]) -> String {
    h.iter()
        .map(|c| match c {
            Call::Gen => "G".to_string(),
            Call::Arb(i) => format!("A{}", i),
            Call::Reset => "R".to_string(),
            Call::Set(k) => format!("S{}", k),
        })
        .collect::<Vec<_>>()
        .join(",")
}

fn check_history(cfg: &Config, inputs: &[Vec<u8>], hist: &[Call], acc: &mut Acc) {
    acc.evaluations += 1;
    let mut g = cfg.build();
    let mut prev: Option<Vec<u8>> = None;
    let mut n_gen = 0;
    let mut sets: Vec<u8> = Vec::new();
    for (k, c) in hist.iter().enumerate() {
        let ent = match c {
            Call::Reset => {
                g.reset();
                continue;
            }
            Call::Set(j) => {
                apply_set(&mut g, *j);
                sets.push(*j);
                continue;
            }
            Call::Gen => cfg.entropy.clone(),
            Call::Arb(i) => Entropy::Bytes(inputs[*i].clone()),
        };
        let got = gen_once(&mut g, &ent);
        n_gen += 1;
        // fresh generator receiving only this call
        let fresh_cfg = Config {
            entropy: ent.clone(),
            ..cfg.clone()
        };
        // same configuration: built the same way, then the same field writes, no earlier call
        let mut fg = cfg.build();
        for j in &sets {
            apply_set(&mut fg, *j);
        }
        let want = gen_once(&mut fg, &ent);
        let (gb, wb) = match (&got, &want) {
            (Outcome::Ok(a), Outcome::Ok(b)) => (a.clone(), b.clone()),
            _ => {
                acc.count("history_calls_with_error_or_panic_not_judged_here", 1);
                continue;
            }
        };
        if gb != wb {
            let appended = prev.as_ref().map_or(false, |p| !p.is_empty() && gb.starts_with(p));
            let msg = format!(
                "call #{} ({}) of history [{}] on a reused generator returned {} bytes, a fresh generator returns {} bytes{}",
                k,
                history_name(&hist[k..=k]),
                history_name(hist),
                gb.len(),
                wb.len(),
                if appended { "; the result starts with the previous call's output (appended)" } else { "" }
            );
            acc.violate(Violation {
                property: "C08".into(),
                signature: format!("C08:reuse:{}:P{}", if appended { "appended" } else { "differs" }, cfg.proto),
                message: format!("{} [{}]", msg, cfg.short()),
                replay: json!({"kind": "c08-history", "property": "C08", "config": fresh_cfg.to_json(),
                    "history": history_name(hist), "field_writes": "S0 ext flag flipped, S1 buffer flag flipped, S2/S3 state.version +1/-1, S4 opcode range, S5 rate, S6 unsafe flag flipped, S7 both opt-in flags on", "inputs_hex": inputs.iter().map(|b| hex(b)).collect::<Vec<_>>(),
                    "failing_call": k, "message": msg,
                    "got_head_hex": hex(&gb[..gb.len().min(64)]), "want_head_hex": hex(&wb[..wb.len().min(64)])}),
            });
            break;
        }
        prev = Some(gb);
    }
    let h = hash128(format!("{}|{}", history_name(hist), cfg.short()).as_bytes());
    acc.ins_distinct(h);
    if n_gen >= 2 {
        acc.ins_nontrivial(h);
        acc.count("histories_with_two_or_more_generation_calls", 1);
    }
    if hist.iter().any(|c| matches!(c, Call::Reset)) {
        acc.count("histories_with_reset", 1);
    }
    if !sets.is_empty() {
        acc.count("histories_with_public_field_writes", 1);
    }
    if acc.samples.len() < 4 && n_gen >= 2 {
        acc.sample(json!({"config": cfg.to_json(), "history": history_name(hist)}));
    }
}

pub fn c08(thorough: bool, seed: u64) -> CheckOutput {
    // alphabet: G, A0, A1, R ; exhaustive for length <= 3 (84 histories), sampled up to length 6
    let alphabet = [Call::Gen, Call::Arb(0), Call::Arb(1), Call::Reset];
    let mut exhaustive: Vec<Vec<Call>> = Vec::new();
    for len in 1..=3usize {
        let total = alphabet.len().pow(len as u32);
        for x in 0..total {
            let mut h = Vec::new();
            let mut y = x;
            for _ in 0..len {
                h.push(alphabet[y % 4].clone());
                y /= 4;
            }
            exhaustive.push(h);
        }
    }
    let n_cfg = if thorough { 1200 } else { 120 };
    let n_sampled = if thorough { 60 } else { 12 };
    let sp = Space {
        // memo-rich ranges included: state carried across calls tends to live in the memo
        ranges: vec![(0, 0), (1, 1), (2, 9), (10, 50), (60, 300), (7, 3), (300, 600), (300, 600), (800, 1200), (2500, 2600), (9000, 9100)],
        ..Space::full()
    };
    let ex = &exhaustive;
    let acc = par_run(
        n_cfg,
        Acc::new,
        |i, acc| {
            let mut rng = Rng::new(mix(seed ^ 0xC08, i as u64));
            let mut cfg = matrix_case(i * 131 + (i % 6) * 128, seed, &sp);
            cfg.proto = (i % 6) as u8;
            if let Entropy::Bytes(_) = cfg.entropy {
                // `generate()` needs a seed to be comparable
                cfg.entropy = Entropy::Seed(rng.next());
            }
            let mut inputs = vec![fuzz_bytes(&mut rng), {
                let n = 1500 + rng.below(3000) as usize;
                rng.bytes(n)
            }];
            // x2 is short enough to be used up completely; x3 = x2 plus more bytes (what a fuzzer
            // does when it extends an input), x4 = x2 without its last bytes
            let n_short = 8 + rng.below(24) as usize;
            let short = rng.bytes(n_short);
            let mut longer = short.clone();
            let n_more = 1 + rng.below(200) as usize;
            longer.extend(rng.bytes(n_more));
            let shorter = short[..short.len() - 1 - rng.below(4) as usize].to_vec();
            inputs.push(short);
            inputs.push(longer);
            inputs.push(shorter);
            // expensive (long) configurations run a sixth of the exhaustive histories
            let stride = if cfg.min >= 2000 { 6 } else { 1 };
            for h in ex.iter().skip(i % stride).step_by(stride) {
                check_history(&cfg, &inputs, h, acc);
            }
            let n_sampled = if cfg.min >= 2000 { n_sampled / 4 } else { n_sampled };
            for _ in 0..n_sampled {
                let len = 4 + rng.below(3) as usize;
                let h: Vec<Call> = (0..len).map(|_| alphabet[rng.below(4) as usize].clone()).collect();
                check_history(&cfg, &inputs, &h, acc);
            }
            // an input followed by an extension / a truncation of itself
            if cfg.min < 2000 {
                for h in [
                    vec![Call::Arb(2), Call::Arb(3)],
                    vec![Call::Arb(2), Call::Reset, Call::Arb(3)],
                    vec![Call::Arb(3), Call::Arb(2)],
                    vec![Call::Arb(2), Call::Gen, Call::Arb(3)],
                    vec![Call::Arb(2), Call::Arb(2), Call::Arb(3), Call::Arb(4)],
                    vec![Call::Arb(4), Call::Arb(2), Call::Arb(3)],
                ] {
                    check_history(&cfg, &inputs, &h, acc);
                    acc.count("histories_with_extended_input", 1);
                }
            }
            // histories with writes to the public configuration fields between calls: every
            // (call, write, call) and (call, reset, write, call) for this configuration, plus
            // sampled longer ones
            if cfg.min < 2000 {
                let gens = [Call::Gen, Call::Arb(0)];
                for j in 0..N_SETS {
                    let a = gens[(i + j as usize) % 2].clone();
                    let b = gens[(i / 2 + j as usize) % 2].clone();
                    check_history(&cfg, &inputs, &[a.clone(), Call::Set(j), b.clone()], acc);
                    check_history(&cfg, &inputs, &[a, Call::Reset, Call::Set(j), b], acc);
                }
                for _ in 0..n_sampled {
                    let len = 4 + rng.below(4) as usize;
                    let h: Vec<Call> = (0..len)
                        .map(|_| {
                            if rng.below(3) == 0 {
                                Call::Set(rng.below(N_SETS as u64) as u8)
                            } else {
                                alphabet[rng.below(4) as usize].clone()
                            }
                        })
                        .collect();
                    check_history(&cfg, &inputs, &h, acc);
                }
            }
        },
        |a, b| a.merge(b),
    );
    // generate() WITHOUT a seed draws its entropy from the operating system for every call: the
    // bytes cannot be predicted, but two calls returning the same 60+ opcode pickle means the
    // second call did not get an entropy input of its own
    let mut acc = acc;
    for p in 0..6u8 {
        for style in 0..3u8 {
            acc.evaluations += 1;
            let cfg = Config {
                order: style,
                ..Config::default_for(p, Entropy::Seed(0))
            };
            let mut g = cfg.build();
            g.seed = None;
            let mut outs: Vec<Vec<u8>> = Vec::new();
            for k in 0..4 {
                if k == 2 {
                    g.reset();
                }
                if let Ok(b) = g.generate() {
                    outs.push(b);
                }
            }
            let mut fresh = cfg.build();
            fresh.seed = None;
            if let Ok(b) = fresh.generate() {
                outs.push(b);
            }
            acc.count("unseeded_calls_compared", outs.len() as u64);
            let distinct: std::collections::BTreeSet<&Vec<u8>> = outs.iter().collect();
            if distinct.len() < outs.len() {
                let msg = format!(
                    "{} unseeded generate() calls (4 on one generator incl. a reset(), 1 on a fresh one; protocol {}, 60..300 opcodes) returned only {} distinct pickles: a call repeated an earlier result instead of drawing fresh entropy",
                    outs.len(),
                    p,
                    distinct.len()
                );
                acc.violate(Violation {
                    property: "C08".into(),
                    signature: format!("C08:unseeded:repeats:P{}", p),
                    message: msg.clone(),
                    replay: json!({"kind": "c08-unseeded", "property": "C08", "protocol": p, "message": msg}),
                });
            }
        }
    }
    CheckOutput {
        acc,
        rule: "cases = (configuration, history) pairs: every history of length 1..3 over {generate, generate_from_arbitrary(x0), generate_from_arbitrary(x1), reset} (84, exhaustive) plus sampled histories of length 4..6, plus histories in which an input is followed by an extension or a truncation of itself, plus histories with writes to the public configuration fields between calls (opt-in flags, state.version, range, rate, unsafe flag; the fresh generator gets the same writes and no earlier call), for configurations drawn from the full matrix on all six protocols; every generation call of the history is compared byte-for-byte with a fresh generator given only that call; distinct = distinct (config, history); non-trivial = history has at least two generation calls".into(),
        extra: json!({"exhaustive_histories_up_to_length_3": exhaustive.len()}),
        assumptions: vec!["generate() is compared byte-for-byte only with a seed set (unseeded generation is not reproducible by design); unseeded calls are only required to differ from each other".into()],
        exhaustive: None,
    }
}

// ================================================================ C09

fn step_limit_for(cfg: &Config) -> usize {
    3 * cfg.min.max(cfg.max) + 4
}

fn check_c09(cfg: &Config, acc: &mut Acc) {
    acc.evaluations += 1;
    let tr = verif::Config {
        snapshots: false,
        choices: false,
        step_limit: step_limit_for(cfg),
    };
    let t0 = Instant::now();
    let res = run_case(cfg, Some(tr));
    let dt = t0.elapsed();
    acc.max("max_case_micros", dt.as_micros() as u64);
    let steps = res
        .events
        .iter()
        .filter(|e| matches!(e, verif::Event::Step { .. }))
        .count();
    acc.count("emission_steps_observed", steps as u64);
    let problem: Option<(String, String)> = match &res.outcome {
        Outcome::Ok(b) if b.is_empty() => Some(("empty".into(), "returned Ok with an empty byte string".into())),
        Outcome::Ok(_) => None,
        Outcome::Err(e) => Some(("err".into(), format!("returned Err: {}", e))),
        Outcome::Panic(p) => {
            if p.contains("verif step limit exceeded") {
                Some(("steps".into(), format!("emitted more than {} opcodes (logical non-termination bound 3*max+4): {}", step_limit_for(cfg), p)))
            } else {
                Some(("panic".into(), format!("panicked: {}", p)))
            }
        }
    };
    if let Some((sig, msg)) = problem {
        // signature: class + first words of the message (panic location independent of input)
        let key: String = msg.chars().filter(|c| !c.is_ascii_digit()).take(60).collect();
        acc.violate(Violation {
            property: "C09".into(),
            signature: format!("C09:{}:{}", sig, key.replace(' ', "_")),
            message: format!("{} [{}]", msg, cfg.short()),
            replay: json!({"kind": "case", "property": "C09", "config": cfg.to_json(), "message": msg, "witness": {}}),
        });
    }
    if let Outcome::Ok(b) = &res.outcome {
        let h = hash128(b);
        acc.ins_distinct(h);
        if b.len() > 2 {
            acc.ins_nontrivial(h);
        }
    }
    if cfg.unsafe_mut {
        acc.count("cases_unsafe", 1);
    }
    if cfg.raw_rate {
        acc.count("cases_out_of_range_or_nan_rate", 1);
    }
    if cfg.max < cfg.min {
        acc.count("cases_min_gt_max", 1);
    }
    if cfg.max == 0 && cfg.min == 0 {
        acc.count("cases_zero_range", 1);
    }
}

/// configurations used for the exhaustive <=2-byte sweep
fn c09_configs(thorough: bool) -> Vec<Config> {
    let mut v = Vec::new();
    let base = |m: Vec<Mk>, uns: bool, rate: f64, raw: bool, min: usize, max: usize, ext: bool, buf: bool| Config {
        proto: 0,
        entropy: Entropy::Bytes(vec![]),
        min,
        max,
        mutators: m,
        rate,
        raw_rate: raw,
        warmup: None,
        order: 0,
        bufsize: None,
        unsafe_mut: uns,
        ext,
        buf,
    };
    v.push(base(vec![], false, 0.1, false, 60, 300, false, false));
    v.push(base(ALL_MK.to_vec(), true, 1.0, false, 10, 50, true, true));
    v.push(base(ALL_MK.to_vec(), false, 0.5, false, 0, 0, true, true));
    v.push(base(vec![Mk::Typeconfusion, Mk::Stringlen, Mk::Character], true, 1.0, false, 7, 3, false, false));
    v.push(base(vec![Mk::Memoindex, Mk::Offbyone], true, f64::NAN, true, 2, 9, false, true));
    v.push(base(vec![Mk::Boundary, Mk::Bitflip], false, -3.5, true, 0, 1, true, false));
    if thorough {
        v.push(base(vec![Mk::Stringlen], false, 7.0, true, 1, 1, false, false));
        v.push(base(ALL_MK.iter().rev().copied().collect(), true, 0.5, false, 60, 300, true, true));
        v.push(base(vec![Mk::Character, Mk::Character], false, 1.0, false, 300, 60, false, false));
        v.push(base(vec![Mk::Memoindex], false, 1.0, false, 100, 101, false, false));
        v.push(base(vec![Mk::Typeconfusion], true, f64::INFINITY, true, 30, 31, true, true));
        v.push(base(vec![Mk::Offbyone, Mk::Boundary, Mk::Bitflip], true, 1.0, false, 0, 600, false, false));
        for bits in [1u32, 2, 4, 8, 16, 32, 64, 0x55, 0x2a, 0x7f, 0x0f, 0x70] {
            v.push(base(subset(bits), bits % 2 == 0, 1.0, false, 20, 40, bits % 3 == 0, bits % 5 == 0));
        }
    }
    v
}

pub fn c09(thorough: bool, seed: u64) -> CheckOutput {
    // W3: all byte strings of length <= 2 x 6 protocols x configurations (exhaustive sub-space)
    let cfgs = c09_configs(thorough);
    let n_inputs = 1 + 256 + 65536;
    let total = n_inputs * 6 * cfgs.len();
    let cfgs_ref = &cfgs;
    let mut acc = par_run(
        total,
        Acc::new,
        |i, acc| {
            let inp = i % n_inputs;
            let rest = i / n_inputs;
            let proto = (rest % 6) as u8;
            let c = &cfgs_ref[rest / 6];
            let bytes = if inp == 0 {
                vec![]
            } else if inp <= 256 {
                vec![(inp - 1) as u8]
            } else {
                let x = inp - 257;
                vec![(x >> 8) as u8, (x & 0xff) as u8]
            };
            let cfg = Config {
                proto,
                entropy: Entropy::Bytes(bytes),
                ..c.clone()
            };
            check_c09(&cfg, acc);
            acc.count("exhaustive_short_input_cases", 1);
        },
        |a, b| a.merge(b),
    );
    // all two-byte periods, repeated to 1000 bytes, 400 opcodes, every protocol (exhaustive over
    // the period): repeated construction steps are where super-linear work hides
    let periodic_len = if thorough { 800 } else { 400 };
    let per = par_run(
        65536 * 6,
        Acc::new,
        |i, acc| {
            let proto = (i % 6) as u8;
            let x = i / 6;
            let pat = [(x >> 8) as u8, (x & 0xff) as u8];
            let bytes: Vec<u8> = (0..2 * periodic_len + 200).map(|k| pat[k % 2]).collect();
            let cfg = Config {
                min: periodic_len,
                max: periodic_len,
                ..Config::default_for(proto, Entropy::Bytes(bytes))
            };
            check_c09(&cfg, acc);
            acc.count("periodic_two_byte_pattern_cases", 1);
        },
        |a, b| a.merge(b),
    );
    acc.merge(per);
    let exhaustive_cases = acc.get("exhaustive_short_input_cases");
    // W1/W2 full matrix incl. unsafe, with hostile rates through the public field
    let n = if thorough { 2_000_000 } else { 120_000 };
    let mut sp = Space::full();
    sp.ranges.push((600, 900));
    let sp_ref = &sp;
    let m = par_run(
        n,
        Acc::new,
        |i, acc| {
            let mut cfg = matrix_case(i, seed, sp_ref);
            if i % 11 == 0 {
                cfg.raw_rate = true;
                cfg.rate = [f64::NAN, -1.0, 2.0, f64::INFINITY, f64::NEG_INFINITY, 1e300, -0.0][(i / 11) % 7];
            }
            check_c09(&cfg, acc);
        },
        |a, b| a.merge(b),
    );
    acc.merge(m);
    // deep-state block: one opcode greedily for thousands of steps (thousands of pending MARKs,
    // stack entries, memo entries when the collapse tail starts)
    let sizes: Vec<usize> = if thorough { vec![4200, 11_000, 20_500] } else { vec![4200, 20_500] };
    let deep = crate::mon_trace::deep_block(
        if thorough { 1500 } else { 150 },
        seed,
        verif::Config {
            snapshots: false,
            choices: false,
            step_limit: 0,
        },
        &sizes,
        &|cfg: &Config, _res: &CaseResult, acc: &mut Acc| check_c09(cfg, acc),
    );
    acc.merge(deep);
    // child-process cases: large pickles (W6), deep nesting on a 2 MiB thread, long inputs
    let exe = std::env::current_exe().expect("current_exe");
    let mut child_cases: Vec<(String, Config, bool)> = Vec::new();
    let bigs: Vec<usize> = if thorough { vec![20_000, 30_000, 40_000] } else { vec![20_000] };
    for (k, t) in bigs.iter().enumerate() {
        for p in if thorough { vec![0u8, 2, 4, 5] } else { vec![2u8, 5] } {
            child_cases.push((
                format!("large-{}-P{}", t, p),
                Config {
                    min: *t,
                    max: *t + 1,
                    mutators: if k % 2 == 0 { vec![] } else { ALL_MK.to_vec() },
                    unsafe_mut: k % 2 == 1,
                    rate: 0.3,
                    ..Config::default_for(p, Entropy::Seed(seed.wrapping_add(k as u64)))
                },
                false,
            ));
        }
    }
    for p in [2u8, 3, 4, 5] {
        for depth in if thorough { vec![4096usize, 8192, 12_000] } else { vec![8192usize] } {
            if let Some(cfg) = deep_nesting(p, depth) {
                child_cases.push((format!("deep-tuple1-{}-P{}", depth, p), cfg, true));
            }
        }
    }
    // deep states inside the property's bounds (inputs of about 8 KiB): thousands of pending
    // MARKs / nested tuples / stack and memo entries on a 2 MiB thread
    {
        let pol: [(u8, u8); 8] = [(b'(', b'N'), (b'2', b'N'), (b'N', b'('), (0x94, b'N'), (b'p', b'N'), (0x85, b'N'), (b'a', b'2'), (b't', b'(')];
        let list: Vec<(u8, usize)> = (0..6u8).flat_map(|p| (0..pol.len()).map(move |k| (p, k))).collect();
        let list_ref = &list;
        let built = par_run(
            list.len(),
            Vec::new,
            |i, out: &mut Vec<(String, Config, bool)>| {
                let (p, k) = list_ref[i];
                let (x, y) = pol[k];
                let base = Config::default_for(p, Entropy::Bytes(vec![]));
                let st = steer_long(&base, 7000, false, 48, greedy_policy(x, y));
                if let Entropy::Bytes(b) = &st.cfg.entropy {
                    // keep the input within "several KiB": what follows the cut falls back to the
                    // exhausted-entropy defaults
                    let mut cfg = st.cfg.clone();
                    cfg.entropy = Entropy::Bytes(b[..b.len().min(8192)].to_vec());
                    out.push((format!("deepstate-{:02x}-P{}", x, p), cfg, true));
                }
            },
            |a, b| a.extend(b),
        );
        let mut built = built;
        built.sort_by(|a, b| a.0.cmp(&b.0));
        child_cases.extend(built);
    }
    {
        let mut rng = Rng::new(seed ^ 0x10e6);
        for p in 0..6u8 {
            child_cases.push((
                format!("long-input-8KiB-P{}", p),
                Config {
                    min: 0,
                    max: 6000,
                    mutators: ALL_MK.to_vec(),
                    unsafe_mut: p % 2 == 0,
                    rate: 0.5,
                    ext: true,
                    buf: true,
                    ..Config::default_for(p, Entropy::Bytes(rng.bytes(8192)))
                },
                false,
            ));
        }
    }
    // hostile buffer-size hints (an allocation failure aborts the process, so: child processes)
    for (k, size) in [usize::MAX, 1usize << 60, isize::MAX as usize, 1usize << 40, 0].iter().enumerate() {
        child_cases.push((
            format!("bufsize-{}-P{}", size, k % 6),
            Config {
                bufsize: Some(*size),
                min: 10,
                max: 40,
                ..Config::default_for((k % 6) as u8, Entropy::Seed(seed.wrapping_add(k as u64)))
            },
            false,
        ));
    }
    let cc = &child_cases;
    let child_acc = par_run(
        cc.len(),
        Acc::new,
        |i, acc| {
            let (name, cfg, small_stack) = &cc[i];
            acc.evaluations += 1;
            let dir = std::env::temp_dir();
            let path = dir.join(format!("pfv-c09-{}-{}.json", std::process::id(), i));
            std::fs::write(&path, serde_json::to_string(&cfg.to_json()).unwrap()).unwrap();
            let mut cmd = Command::new(&exe);
            cmd.arg("child")
                .arg("c09")
                .arg(&path)
                .arg(if *small_stack { "2" } else { "8" })
                .stdout(Stdio::piped())
                .stderr(Stdio::piped());
            let t0 = Instant::now();
            let mut ch = cmd.spawn().unwrap_or_else(|e| panic!("spawn child {:?}: {}", exe, e));
            // generous wall-clock watchdog: its firing is inconclusive, never a violation
            let limit = Duration::from_secs(600);
            let status = loop {
                match ch.try_wait().expect("try_wait") {
                    Some(s) => break Some(s),
                    None => {
                        if t0.elapsed() > limit {
                            let _ = ch.kill();
                            let _ = ch.wait();
                            break None;
                        }
                        std::thread::sleep(Duration::from_millis(20));
                    }
                }
            };
            let _ = std::fs::remove_file(&path);
            acc.count("child_process_cases", 1);
            match status {
                None => acc.inconclusive.push(format!("watchdog fired on child case {}", name)),
                Some(s) => {
                    use std::os::unix::process::ExitStatusExt;
                    let mut out = String::new();
                    if let Some(mut o) = ch.stdout.take() {
                        use std::io::Read;
                        let _ = o.read_to_string(&mut out);
                    }
                    if let Some(sig) = s.signal() {
                        let msg = format!("child process running case {} was killed by signal {} (abort / stack overflow)", name, sig);
                        acc.violate(Violation {
                            property: "C09".into(),
                            signature: format!("C09:signal{}:{}", sig, name.split('-').next().unwrap_or("")),
                            message: format!("{} [{}]", msg, cfg.short()),
                            replay: json!({"kind": "c09-child", "property": "C09", "config": cfg.to_json(), "stack_mib": if *small_stack {2} else {8}, "message": msg}),
                        });
                    } else if s.code() != Some(0) {
                        let msg = format!("child case {} failed: exit {:?}: {}", name, s.code(), out.trim());
                        acc.violate(Violation {
                            property: "C09".into(),
                            signature: format!("C09:child:{}", name.split('-').next().unwrap_or("")),
                            message: format!("{} [{}]", msg, cfg.short()),
                            replay: json!({"kind": "c09-child", "property": "C09", "config": cfg.to_json(), "stack_mib": if *small_stack {2} else {8}, "message": msg}),
                        });
                    } else {
                        acc.ins_nontrivial(hash128(name.as_bytes()));
                        acc.ins_distinct(hash128(name.as_bytes()));
                    }
                }
            }
        },
        |a, b| a.merge(b),
    );
    acc.merge(child_acc);
    acc.sample(json!({"config": cfgs[1].to_json(), "inputs": "all 65 793 byte strings of length <= 2, protocols 0..5"}));
    acc.sample(json!({"child_cases": child_cases.iter().map(|c| c.0.clone()).collect::<Vec<_>>()}));
    CheckOutput {
        acc,
        rule: "cases = ALL fuzzer byte strings of length <= 2 x 6 protocols x a set of configurations (incl. unsafe, all mutators, degenerate ranges, NaN / out-of-range rates written through the public field) + every two-byte pattern repeated to 1000+ bytes at 400 (thorough: 800) opcodes x 6 protocols + full configuration matrix incl. unsafe + child-process cases (20k+ opcode pickles, TUPLE1 chains on a 2 MiB thread, 8 KiB inputs); monitors: catch_unwind, Err / empty result, hook step bound 3*max(min,max)+4, per-call CPU work bound max(20 s, 2e-6 s x T^2) on the generating thread, child exit status / signal; distinct = distinct output bytes; non-trivial = output longer than two bytes".into(),
        extra: json!({"exhaustive_short_input_cases": exhaustive_cases, "configurations_in_exhaustive_sweep": cfgs.len()}),
        assumptions: vec![
            "'never loops forever' is decided as a bound on emitted opcodes; a hang that emits nothing only trips the watchdog (inconclusive)".into(),
            "release build; stack overflow explored for inputs <= 8 KiB and <= 40 000 opcodes on 2 MiB and 8 MiB stacks".into(),
        ],
        exhaustive: Some(false),
    }
}

/// input that makes the generator emit NONE followed by `depth` TUPLE1 (fuzzer-bytes mode)
fn deep_nesting(proto: u8, depth: usize) -> Option<Config> {
    let base = Config::default_for(proto, Entropy::Bytes(vec![]));
    // probe the candidate list in state [Tuple]
    let mut prefix: Vec<u8> = if proto >= 4 { vec![0] } else { vec![] };
    let mk = |input: Vec<u8>, k: usize| Config {
        entropy: Entropy::Bytes(input),
        min: k,
        max: k,
        ..base.clone()
    };
    // step 0: choose NONE (0x4e)
    let mut input = prefix.clone();
    input.extend(filler(0, 0));
    let r = run_case(&mk(input.clone(), 1), Some(trace_cfg()));
    let p0 = probe_from_events(&r.events, 0, input.len())?;
    let j = p0.valid.iter().position(|c| *c == 0x4e)?;
    prefix = input[..p0.consumed].to_vec();
    prefix.extend(choice_byte(j, p0.valid.len()));
    // step 1: TUPLE1 (0x85)
    let mut input = prefix.clone();
    input.extend(filler(0, 0));
    let r = run_case(&mk(input.clone(), 2), Some(trace_cfg()));
    let p1 = probe_from_events(&r.events, 1, input.len())?;
    let j1 = p1.valid.iter().position(|c| *c == 0x85)?;
    prefix = input[..p1.consumed].to_vec();
    prefix.extend(choice_byte(j1, p1.valid.len()));
    // steps 2..: state [Tuple] is stable under TUPLE1
    let mut input = prefix.clone();
    input.extend(filler(0, 0));
    let r = run_case(&mk(input.clone(), 3), Some(trace_cfg()));
    let p2 = probe_from_events(&r.events, 2, input.len())?;
    let j2 = p2.valid.iter().position(|c| *c == 0x85)?;
    let mut full = input[..p2.consumed].to_vec();
    for _ in 0..depth {
        full.extend(choice_byte(j2, p2.valid.len()));
    }
    Some(mk(full, depth + 2))
}

// ================================================================ C07

fn c07_cases(seed: u64, n: usize) -> Vec<Config> {
    let sp = Space::full();
    let mut v = Vec::new();
    for i in 0..n {
        let mut c = matrix_case(i * 7 + 3, seed, &sp);
        c.proto = (i % 6) as u8;
        // memo-rich and alias-rich: longer ranges for a third of the cases
        if i % 3 == 0 {
            c.min = 200;
            c.max = 500;
        }
        // a few very long pickles: more than 256 memo entries (where an unsorted or truncated
        // key list would show) - PRNG mode, since 4 KiB of fuzzer bytes run dry long before
        if i % 20 == 7 {
            c.min = 3500 + (i % 7) * 200;
            c.max = c.min + 400;
            c.entropy = Entropy::Seed(mix(seed, i as u64));
            c.unsafe_mut = false;
        }
        v.push(c);
    }
    // recipe-steered pickles (fuzzer-bytes mode): typed opcodes on containers with several
    // heterogeneous members, aliases, memo round trips - where a decision that iterates a
    // hash-ordered or address-keyed container would show
    for k in 0..n {
        let proto = (5 - k % 6) as u8;
        let base = Config {
            ext: k % 2 == 0,
            buf: k % 4 < 2,
            ..Config::default_for(proto, Entropy::Bytes(vec![]))
        };
        v.push(crate::mon_trace::object_heavy(&base, mix(seed ^ 0xC07, k as u64)));
    }
    // protocol 5 with the buffer opcodes on, default size: the one configuration class with opcodes
    // that act on an existing object in place (READONLY_BUFFER); many seeds
    for k in 0..n {
        v.push(Config {
            ext: k % 2 == 0,
            buf: true,
            ..Config::default_for(5, Entropy::Seed(mix(seed ^ 0xB0F5, k as u64) >> (k % 40)))
        });
    }
    // two generations with far more than 4096 mutations each (every value of a 12 000-opcode pickle
    // mutated): a budget, counter or pool shared between generators of one process shows when
    // these run next to other generations on the thread rounds
    for (p, unsafe_mut) in [(2u8, false), (4u8, true)] {
        v.push(Config {
            min: 12_000,
            max: 12_000,
            mutators: ALL_MK.to_vec(),
            rate: 1.0,
            unsafe_mut,
            ..Config::default_for(p, Entropy::Seed(seed ^ 0xB0D6 ^ p as u64))
        });
    }
    // one generation that runs for well over a second (a wall-clock cut-off would show here)
    v.push(Config {
        min: 24_000,
        max: 24_000,
        ..Config::default_for(4, Entropy::Seed(seed ^ 0x10AD))
    });
    v
}

fn run_bytes(cfg: &Config) -> Vec<u8> {
    match run_case(cfg, None).outcome {
        Outcome::Ok(b) => b,
        Outcome::Err(e) => format!("ERR:{}", e).into_bytes(),
        Outcome::Panic(p) => format!("PANIC:{}", p).into_bytes(),
    }
}

pub fn c07(thorough: bool, seed: u64) -> CheckOutput {
    let n_cases = if thorough { 3000 } else { 400 };
    let cases = c07_cases(seed, n_cases);
    let case_file = std::env::temp_dir().join(format!("pfv-c07-cases-{}.json", std::process::id()));
    std::fs::write(&case_file, serde_json::to_string(&cases.iter().map(|c| c.to_json()).collect::<Vec<_>>()).unwrap()).expect("write case file");
    std::env::set_var("PFV_C07_CASES", &case_file);
    let mut acc = Acc::new();
    // reference: main thread, instance 1; instance 2 right away
    let reference: Vec<Vec<u8>> = cases.iter().map(run_bytes).collect();
    let mut memo_rich = 0;
    for (i, c) in cases.iter().enumerate() {
        acc.evaluations += 1;
        let again = run_bytes(c);
        if again != reference[i] {
            let msg = format!("two generator instances with equal configuration and entropy returned different bytes in one thread (case {})", i);
            acc.violate(Violation {
                property: "C07".into(),
                signature: format!("C07:same_thread:P{}", c.proto),
                message: format!("{} [{}]", msg, c.short()),
                replay: json!({"kind": "case", "property": "C07", "config": c.to_json(), "message": msg, "witness": {"mode": "same-thread"}}),
            });
        }
        let a = analyze(&reference[i], false);
        let h = hash128(&reference[i]);
        acc.ins_distinct(h);
        if a.max_memo >= 2 && a.gets >= 1 {
            memo_rich += 1;
            acc.ins_nontrivial(h);
        }
        if a.max_memo > 256 {
            acc.count("cases_with_more_than_256_memo_entries", 1);
        }
        if acc.samples.len() < 3 && a.max_memo >= 2 && a.gets >= 1 {
            acc.sample(sample_of(c, &reference[i], &a.op_names()));
        }
    }
    acc.count("cases_with_two_or_more_memo_keys_and_a_GET", memo_rich);
    // 16 threads, each the whole list in its own shuffled order with random yields / sleeps
    let threads = 16usize;
    let orders: std::sync::Mutex<Vec<Vec<usize>>> = std::sync::Mutex::new(Vec::new());
    let mismatches: std::sync::Mutex<Vec<(usize, usize)>> = std::sync::Mutex::new(Vec::new());
    let completion: std::sync::Mutex<Vec<usize>> = std::sync::Mutex::new(Vec::new());
    let rounds = if thorough { 4 } else { 2 };
    for round in 0..rounds {
        std::thread::scope(|s| {
            for t in 0..threads {
                let cases = &cases;
                let reference = &reference;
                let orders = &orders;
                let mismatches = &mismatches;
                let completion = &completion;
                s.spawn(move || {
                    let mut rng = Rng::new(mix(seed ^ 0xC07, (round * 100 + t) as u64));
                    let mut order: Vec<usize> = (0..cases.len()).collect();
                    for i in (1..order.len()).rev() {
                        let j = rng.below(i as u64 + 1) as usize;
                        order.swap(i, j);
                    }
                    for &i in &order {
                        match rng.below(16) {
                            0 => std::thread::sleep(Duration::from_micros(rng.below(300))),
                            1 | 2 => std::thread::yield_now(),
                            _ => {}
                        }
                        let b = run_bytes(&cases[i]);
                        if b != reference[i] {
                            mismatches.lock().unwrap().push((t, i));
                        }
                    }
                    completion.lock().unwrap().push(t);
                    orders.lock().unwrap().push(order.iter().take(8).copied().collect());
                });
            }
        });
    }
    acc.evaluations += (threads * cases.len() * rounds) as u64;
    acc.count("threaded_generations", (threads * cases.len() * rounds) as u64);
    let comp = completion.into_inner().unwrap();
    let distinct_orders: std::collections::BTreeSet<Vec<usize>> = comp.chunks(threads).map(|c| c.to_vec()).collect();
    acc.count("distinct_thread_completion_orders", distinct_orders.len() as u64);
    for (t, i) in mismatches.into_inner().unwrap().into_iter().take(5) {
        let msg = format!("thread {} produced different bytes for case {} than the main thread", t, i);
        acc.violate(Violation {
            property: "C07".into(),
            signature: format!("C07:threads:P{}", cases[i].proto),
            message: format!("{} [{}]", msg, cases[i].short()),
            replay: json!({"kind": "case", "property": "C07", "config": cases[i].to_json(), "message": msg, "witness": {"mode": "threads"}}),
        });
    }
    // separate processes (fresh ASLR / hash seeds), different cwd and TZ
    let exe = std::env::current_exe().expect("current_exe");
    let n_proc = if thorough { 16 } else { 8 };
    let proc_results: Vec<Option<Vec<Vec<u8>>>> = {
        let handles: Vec<_> = (0..n_proc)
            .map(|k| {
                let mut cmd = Command::new(&exe);
                // child k runs the list in its own order (k = 0: as listed): a result may depend on
                // nothing but its own configuration and entropy, in particular not on process history
                cmd.arg("child").arg("c07").arg(seed.to_string()).arg(n_cases.to_string()).arg(k.to_string());
                cmd.env("TZ", ["UTC", "Asia/Tokyo", "America/New_York", "Pacific/Chatham"][k % 4]);
                cmd.env("PFV_NONCE", format!("{}", k));
                cmd.env("LANG", ["C", "tr_TR.UTF-8", "de_DE.UTF-8", "ja_JP.UTF-8"][(k / 2) % 4]);
                cmd.env("LC_ALL", ["C", "tr_TR.UTF-8", "de_DE.UTF-8", "ja_JP.UTF-8"][(k / 2) % 4]);
                if k % 3 == 0 {
                    cmd.env("HOME", "/nonexistent").env("RUST_BACKTRACE", "full").env("PFV_PADDING", "x".repeat(50_000));
                }
                cmd.current_dir(if k % 2 == 0 { "/" } else { "/tmp" });
                cmd.stdout(Stdio::piped()).stderr(Stdio::null());
                cmd.spawn().expect("spawn")
            })
            .collect();
        handles
            .into_iter()
            .map(|ch| {
                let out = ch.wait_with_output().ok()?;
                if !out.status.success() {
                    return None;
                }
                let text = String::from_utf8_lossy(&out.stdout);
                Some(text.lines().map(unhex).collect())
            })
            .collect()
    };
    for (k, pr) in proc_results.iter().enumerate() {
        match pr {
            None => acc.inconclusive.push(format!("child process {} failed to report", k)),
            Some(list) => {
                acc.count("processes_compared", 1);
                acc.evaluations += list.len() as u64;
                if list.len() != reference.len() {
                    acc.inconclusive.push(format!("child process {} reported {} cases, expected {}", k, list.len(), reference.len()));
                    continue;
                }
                if let Some(i) = (0..list.len()).find(|&i| list[i] != reference[i]) {
                    let msg = format!("separately spawned process {} (own case order) produced different bytes for case {}", k, i);
                    acc.violate(Violation {
                        property: "C07".into(),
                        signature: format!("C07:process:P{}", cases[i].proto),
                        message: format!("{} [{}]", msg, cases[i].short()),
                        replay: json!({"kind": "case", "property": "C07", "config": cases[i].to_json(), "message": msg, "witness": {"mode": "process"}}),
                    });
                }
            }
        }
    }
    // isolation: a process that generates exactly one case must agree with the process that
    // generated hundreds of other cases before it
    let iso: Vec<usize> = (0..cases.len()).step_by((cases.len() / if thorough { 96 } else { 36 }).max(1)).collect();
    let iso_acc = par_run(
        iso.len(),
        Acc::new,
        |k, acc| {
            let i = iso[k];
            let out = Command::new(&exe)
                .arg("child")
                .arg("c07")
                .arg(seed.to_string())
                .arg(n_cases.to_string())
                .arg("0")
                .arg(i.to_string())
                .stdout(Stdio::piped())
                .stderr(Stdio::null())
                .output();
            acc.evaluations += 1;
            match out {
                Ok(o) if o.status.success() => {
                    let got = unhex(String::from_utf8_lossy(&o.stdout).lines().next().unwrap_or(""));
                    acc.count("isolated_single_case_processes", 1);
                    if got != reference[i] {
                        let msg = format!(
                            "a fresh process generating only case {} returned different bytes than the process that had generated other cases before it (process history influences the output)",
                            i
                        );
                        acc.violate(Violation {
                            property: "C07".into(),
                            signature: format!("C07:history:P{}", cases[i].proto),
                            message: format!("{} [{}]", msg, cases[i].short()),
                            replay: json!({"kind": "case", "property": "C07", "config": cases[i].to_json(), "message": msg, "witness": {"mode": "isolated-process", "case_index": i}}),
                        });
                    }
                }
                _ => acc.inconclusive.push(format!("isolated child for case {} failed", i)),
            }
        },
        |a, b| a.merge(b),
    );
    acc.merge(iso_acc);
    // CLI batch under different rayon widths (needs the built CLI)
    if let Ok(cli) = std::env::var("PFV_CLI") {
        let widths = ["1", "2", "3", "16"];
        // (protocol option or None = derived from the seed, seed, extra flags)
        let combos: Vec<(Option<u8>, u64, Vec<&str>)> = vec![
            (Some(2), seed % 1000, vec![]),
            (Some(4), seed % 1000 + 1, vec!["--mutators", "all", "--mutation-rate", "0.5"]),
            (Some(5), seed % 1000 + 2, vec!["--allow-ext", "--allow-buffer", "--min-opcodes", "200", "--max-opcodes", "400"]),
            (Some(0), seed % 1000 + 3, vec!["--mutators", "boundary", "stringlen", "--unsafe-mutations"]),
            (None, seed % 1000 + 4, vec![]),
            (None, seed % 1000 + 5, vec!["--mutators", "all", "--unsafe-mutations"]),
            (None, seed % 1000 + 6, vec!["--min-opcodes", "10", "--max-opcodes", "40"]),
        ];
        let tmp = std::env::temp_dir().join(format!("pfv-c07-{}", std::process::id()));
        let _ = std::fs::remove_dir_all(&tmp);
        std::fs::create_dir_all(&tmp).ok();
        for (ci, (proto, s, extra)) in combos.iter().enumerate() {
            let mut per_width: Vec<BTreeMap<String, Vec<u8>>> = Vec::new();
            for w in widths {
                let d = tmp.join(format!("c{}-w{}", ci, w));
                let st = Command::new(&cli)
                    .arg("--dir")
                    .arg(&d)
                    .arg("--samples")
                    .arg("24")
                    .arg("--seed")
                    .arg(s.to_string())
                    .args(proto.map(|p| vec!["--protocol".to_string(), p.to_string()]).unwrap_or_default())
                    .args(extra)
                    .env("RAYON_NUM_THREADS", w)
                    .stdout(Stdio::null())
                    .stderr(Stdio::null())
                    .status();
                let mut files = BTreeMap::new();
                if let Ok(rd) = std::fs::read_dir(&d) {
                    for e in rd.flatten() {
                        files.insert(e.file_name().to_string_lossy().to_string(), std::fs::read(e.path()).unwrap_or_default());
                    }
                }
                if !matches!(st, Ok(s) if s.success()) {
                    acc.inconclusive.push(format!("CLI batch run failed for combo {} width {}", ci, w));
                }
                // with a seed every sample of one batch has the same configuration and entropy
                let distinct: std::collections::BTreeSet<&Vec<u8>> = files.values().collect();
                if distinct.len() > 1 {
                    let msg = format!(
                        "CLI batch with --seed {} (protocol {:?}, extra {:?}, RAYON_NUM_THREADS={}) wrote {} different pickles in one directory",
                        s, proto, extra, w, distinct.len()
                    );
                    acc.violate(Violation {
                        property: "C07".into(),
                        signature: format!("C07:batch_samples_differ:P{}", proto.map(|p| p.to_string()).unwrap_or_else(|| "seed".into())),
                        message: msg.clone(),
                        replay: json!({"kind": "c07-cli", "property": "C07", "protocol": proto, "seed": s, "extra": extra, "message": msg}),
                    });
                }
                per_width.push(files);
                acc.count("cli_batch_runs", 1);
                acc.evaluations += 24;
            }
            for (wi, f) in per_width.iter().enumerate().skip(1) {
                if *f != per_width[0] {
                    let msg = format!(
                        "CLI batch output differs between RAYON_NUM_THREADS={} and {} (protocol {:?}, seed {}, extra {:?})",
                        widths[0], widths[wi], proto, s, extra
                    );
                    acc.violate(Violation {
                        property: "C07".into(),
                        signature: format!("C07:rayon_width:P{}", proto.map(|p| p.to_string()).unwrap_or_else(|| "seed".into())),
                        message: msg.clone(),
                        replay: json!({"kind": "c07-cli", "property": "C07", "protocol": proto, "seed": s, "extra": extra, "message": msg}),
                    });
                }
            }
        }
        let _ = std::fs::remove_dir_all(&tmp);
    } else {
        acc.count("cli_batch_skipped_no_PFV_CLI", 1);
    }
    if acc.get("cases_with_more_than_256_memo_entries") < 3 {
        acc.inconclusive.push("too few cases with more than 256 memo entries".into());
    }
    if memo_rich < 20 {
        acc.inconclusive.push("too few memo-rich cases (>=2 memo keys then GET)".into());
    }
    let _ = std::fs::remove_file(&case_file);
    CheckOutput {
        acc,
        rule: "cases = configurations from the full matrix (both entropy modes, a third with 200..500 opcodes for memo/alias traffic); each is generated twice on the main thread, once on each of 16 concurrent threads (own shuffled order, random yields/sleeps), once in each of >= 8 separately spawned processes (different TZ / cwd, fresh ASLR and hash seeds, each process running the list in its own order), once in a fresh process that generates nothing else (a sample of cases: no dependence on process history), and CLI batch directories are compared across RAYON_NUM_THREADS in {1,2,3,16}; full bytes are compared; distinct = distinct reference outputs; non-trivial = output defines >= 2 memo keys and executes a GET".into(),
        extra: json!({"threads": threads, "processes": n_proc}),
        assumptions: vec!["schedules are sampled, not enumerated; wall-clock independence is covered only by runs happening at different times".into()],
        exhaustive: None,
    }
}

// ================================================================ child entry point

pub fn child_main(args: &[String]) -> i32 {
    match args.first().map(|s| s.as_str()) {
        Some("c07") => {
            quiet_panics();
            let seed: u64 = args[1].parse().unwrap();
            let n: usize = args[2].parse().unwrap();
            let order_seed: u64 = args.get(3).and_then(|s| s.parse().ok()).unwrap_or(0);
            let only: Option<usize> = args.get(4).and_then(|s| s.parse().ok());
            // the parent hands the case list over as a file: building it involves steering, i.e.
            // generating, and a process whose outputs are compared must not have generated
            // anything but its cases (in its own order)
            let cases: Vec<Config> = match std::env::var("PFV_C07_CASES") {
                Ok(p) => {
                    let text = std::fs::read_to_string(&p).expect("case file");
                    let v: Value = serde_json::from_str(&text).expect("case json");
                    v.as_array().expect("array").iter().map(Config::from_json).collect()
                }
                Err(_) => c07_cases(seed, n),
            };
            let out = std::io::stdout();
            let mut o = out.lock();
            use std::io::Write;
            if let Some(i) = only {
                // isolation: this process generates exactly one case
                writeln!(o, "{}", hex(&run_bytes(&cases[i]))).unwrap();
                return 0;
            }
            let mut order: Vec<usize> = (0..cases.len()).collect();
            if order_seed != 0 {
                let mut rng = Rng::new(mix(seed, order_seed));
                for i in (1..order.len()).rev() {
                    let j = rng.below(i as u64 + 1) as usize;
                    order.swap(i, j);
                }
            }
            let mut results: Vec<Vec<u8>> = vec![Vec::new(); cases.len()];
            for &i in &order {
                results[i] = run_bytes(&cases[i]);
            }
            for r in &results {
                writeln!(o, "{}", hex(r)).unwrap();
            }
            0
        }
        Some("c09") => {
            // one case in this process, on a thread with the requested stack size; panics are
            // NOT caught by a hook-silencing wrapper: exit code tells the parent what happened
            let text = std::fs::read_to_string(&args[1]).expect("config");
            let cfg = Config::from_json(&serde_json::from_str::<Value>(&text).expect("json"));
            let mib: usize = args.get(2).and_then(|s| s.parse().ok()).unwrap_or(8);
            let h = std::thread::Builder::new()
                .stack_size(mib << 20)
                .spawn(move || {
                    let r = run_case(&cfg, None);
                    match r.outcome {
                        Outcome::Ok(b) if !b.is_empty() => {
                            println!("ok {}", b.len());
                            0
                        }
                        Outcome::Ok(_) => {
                            println!("empty output");
                            3
                        }
                        Outcome::Err(e) => {
                            println!("err {}", e.replace('\n', " "));
                            4
                        }
                        Outcome::Panic(p) => {
                            println!("panic {}", p.replace('\n', " "));
                            5
                        }
                    }
                })
                .expect("spawn thread");
            h.join().unwrap_or(6)
        }
        Some("sanwork") => {
            // plain workload for sanitizer / valgrind / Miri runs: no monitors, no event log
            // pfv child sanwork <single|threads|tiny> <seed> <n>
            let mode = args[1].as_str();
            let seed: u64 = args[2].parse().unwrap();
            let n: usize = args[3].parse().unwrap();
            let sp = Space::full();
            match mode {
                "single" => {
                    let mut total = 0usize;
                    for i in 0..n {
                        let mut cfg = matrix_case(i, seed, &sp);
                        if cfg.min > 400 || cfg.max > 400 {
                            cfg.min = 60;
                            cfg.max = 300;
                        }
                        let mut g = cfg.build();
                        let out = gen_once(&mut g, &cfg.entropy);
                        if let Outcome::Ok(b) = &out {
                            total += b.len();
                        }
                        if i % 3 == 0 {
                            g.reset();
                            let _ = gen_once(&mut g, &cfg.entropy);
                        }
                    }
                    println!("sanwork single: {} cases, {} bytes", n, total);
                    0
                }
                "tiny" => {
                    // very small generations (interpreters): fuzzer-bytes mode, few opcodes
                    let mut total = 0usize;
                    for i in 0..n {
                        let mut rng = Rng::new(mix(seed, i as u64));
                        let cfg = Config {
                            min: 4,
                            max: 9,
                            mutators: vec![Mk::Bitflip, Mk::Stringlen, Mk::Character],
                            rate: 0.5,
                            ..Config::default_for((i % 6) as u8, Entropy::Bytes(rng.bytes(64)))
                        };
                        let mut g = cfg.build();
                        if let Outcome::Ok(b) = gen_once(&mut g, &cfg.entropy) {
                            total += b.len();
                        }
                    }
                    println!("sanwork tiny: {} cases, {} bytes", n, total);
                    0
                }
                _ => {
                    let cases = c07_cases(seed, n);
                    let reference: Vec<Vec<u8>> = cases.iter().map(run_bytes).collect();
                    let bad = std::sync::atomic::AtomicUsize::new(0);
                    std::thread::scope(|s| {
                        for t in 0..8usize {
                            let cases = &cases;
                            let reference = &reference;
                            let bad = &bad;
                            s.spawn(move || {
                                for k in 0..cases.len() {
                                    let i = (k * 7 + t * 13) % cases.len();
                                    if run_bytes(&cases[i]) != reference[i] {
                                        bad.fetch_add(1, std::sync::atomic::Ordering::Relaxed);
                                    }
                                }
                            });
                        }
                    });
                    let b = bad.load(std::sync::atomic::Ordering::Relaxed);
                    println!("sanwork threads: {} cases x 8 threads, {} mismatches", n, b);
                    if b > 0 {
                        7
                    } else {
                        0
                    }
                }
            }
        }
        _ => {
            eprintln!("pfv child: unknown mode");
            64
        }
    }
}

// ================================================================ replay

pub fn replay(path: &str) -> i32 {
    let text = match std::fs::read_to_string(path) {
        Ok(t) => t,
        Err(e) => {
            eprintln!("cannot read {}: {}", path, e);
            return 64;
        }
    };
    let v: Value = serde_json::from_str(&text).expect("replay json");
    let prop = v["property"].as_str().unwrap_or("?").to_string();
    println!("replaying {} ({}): {}", prop, v["kind"].as_str().unwrap_or("?"), v["message"].as_str().unwrap_or(""));
    if v["kind"] != "case" {
        println!("replay of kind {} is descriptive only; witness: {}", v["kind"], v.get("witness").unwrap_or(&Value::Null));
        return 0;
    }
    let cfg = Config::from_json(&v["config"]);
    let mut acc = Acc::new();
    let tr = Some(trace_cfg());
    let res = run_case(&cfg, tr);
    match prop.as_str() {
        "C01" => crate::mon_bytes::check_c01(&cfg, &res, &mut acc),
        "C02" => crate::mon_bytes::check_c02(&cfg, &res, &mut acc),
        "C04" => crate::mon_bytes::check_c04(&cfg, &res, &mut acc),
        "C05" => crate::mon_bytes::check_c05(&cfg, &res, &mut acc),
        "C06" => crate::mon_bytes::check_c06(&cfg, &res, &mut acc),
        "C10" => crate::mon_bytes::check_c10(&cfg, &res, &mut acc),
        "C03" => crate::mon_trace::check_c03(&cfg, &res, &mut acc),
        "C11" => crate::mon_trace::check_c11(&cfg, &res, &mut acc),
        "C15" => crate::mon_trace::check_c15(&cfg, &res, &mut acc),
        "C17" => crate::mon_trace::check_c17(&cfg, &res, &mut acc),
        "C09" => check_c09(&cfg, &mut acc),
        "C14" => check_c14(&cfg, Life::Drop, &mut acc),
        "C07" => {
            let a = run_bytes(&cfg);
            let b = run_bytes(&cfg);
            println!("two runs equal: {}", a == b);
        }
        other => {
            println!("no case replay for {}", other);
        }
    }
    if let Outcome::Ok(b) = &res.outcome {
        println!("output: {} bytes, head {}", b.len(), hex(&b[..b.len().min(32)]));
    }
    if acc.violations.is_empty() {
        println!("REPLAY: property held on this case with the current tree");
        0
    } else {
        for v in &acc.violations {
            println!("REPLAY-VIOLATION {}: {}", v.signature, v.message);
        }
        1
    }
}
