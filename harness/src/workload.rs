//! Workload generators: configuration matrix (W1/W2), exhaustive short inputs
//! (W3), decision-tree exploration and steering through the fuzzer-bytes
//! entropy mode (W4/W5).

use std::collections::HashSet;

use pickle_fuzzer::verif::{self, Event, Phase};

use crate::common::*;

// ---------------------------------------------------------------- fuzzer byte strings (W2)

pub const HOSTILE_DOUBLES: [f64; 14] = [
    f64::NAN,
    f64::from_bits(0x7ff8_0000_0000_0007),
    f64::from_bits(0xffff_ffff_ffff_ffff),
    f64::INFINITY,
    f64::NEG_INFINITY,
    -1.0,
    2.0,
    1.0,
    0.0,
    -0.0,
    5e-324,
    f64::MAX,
    f64::MIN,
    0.5,
];

pub fn fuzz_bytes(rng: &mut Rng) -> Vec<u8> {
    let mut v = fuzz_bytes_inner(rng);
    // one input in eight has a length at a power-of-two boundary (what a fuzzer's max_len or a
    // buffer size produces): 64, 128, 256, 512, .. 4096, and one byte either side
    if rng.below(8) == 0 {
        let target = (64usize << rng.below(7)) + rng.below(3) as usize - 1;
        while v.len() < target {
            let more = rng.bytes(target - v.len());
            v.extend(more);
        }
        v.truncate(target);
    }
    v
}

fn fuzz_bytes_inner(rng: &mut Rng) -> Vec<u8> {
    match rng.below(11) {
        10 => {
            // periodic input: a short period repeated (drives the generator into a cycle of
            // opcode choices, i.e. the same construction step many times over)
            let p = 1 + rng.below(5) as usize;
            let period = rng.bytes(p);
            let n = 200 + rng.below(3000) as usize;
            (0..n).map(|i| period[i % p]).collect()
        }
        0 => vec![],
        1 => {
            let n = rng.below(3000) as usize;
            vec![0u8; n]
        }
        2 => {
            let n = rng.below(3000) as usize;
            vec![0xFFu8; n]
        }
        3 => {
            // short: exhausts mid-pickle
            let n = rng.below(48) as usize;
            rng.bytes(n)
        }
        4 => {
            // random bytes interleaved with hostile doubles (little endian, as arbitrary reads them)
            let mut v = Vec::new();
            let blocks = rng.below(200) as usize;
            for _ in 0..blocks {
                let k = rng.below(6) as usize;
                v.extend(rng.bytes(k));
                let d = *rng.pick(&HOSTILE_DOUBLES);
                v.extend_from_slice(&d.to_le_bytes());
            }
            v
        }
        5 => {
            // low-entropy: small alphabet
            let n = rng.below(4096) as usize;
            let a = rng.bytes(3);
            (0..n).map(|_| a[rng.below(3) as usize]).collect()
        }
        _ => {
            let n = rng.below(4096) as usize;
            rng.bytes(n)
        }
    }
}

// ---------------------------------------------------------------- matrix (W1/W2)

/// opcode ranges of the matrix; cheap ranges are listed several times so that the
/// expensive (1000+) ones are drawn rarely
pub const RANGES_SMALL: [(usize, usize); 25] = [
    (0, 0),
    (0, 1),
    (1, 1),
    (7, 3),
    (2, 9),
    (60, 300),
    (300, 60),
    (10, 50),
    (0, 0),
    (0, 1),
    (1, 1),
    (7, 3),
    (2, 9),
    (60, 300),
    (300, 60),
    (10, 50),
    (3, 3),
    (4, 4),
    (5, 6),
    (20, 80),
    (2, 9),
    (60, 300),
    (120, 121),
    (10, 50),
    (1000, 1001),
];

#[derive(Clone)]
pub struct Space {
    pub allow_unsafe: bool,
    /// restrict to safe-constructible subsets even when unsafe is off
    pub ranges: Vec<(usize, usize)>,
    pub rates: Vec<f64>,
    /// None = vary, Some = fixed
    pub ext: Option<bool>,
    pub buf: Option<bool>,
    pub force_unsafe: Option<bool>,
    pub bytes_mode_share: u64, // out of 100
    /// share (out of 100) of cases whose mutator objects are created with the opposite unsafe
    /// flag from the generator's own (two independent knobs of the public API)
    pub flip_share: u64,
}

impl Space {
    pub fn safe() -> Self {
        Space {
            allow_unsafe: false,
            ranges: RANGES_SMALL.to_vec(),
            rates: vec![0.0, 0.1, 0.5, 1.0],
            ext: None,
            buf: None,
            force_unsafe: None,
            bytes_mode_share: 50,
            flip_share: 0,
        }
    }
    pub fn full() -> Self {
        Space {
            allow_unsafe: true,
            flip_share: 10,
            ..Space::safe()
        }
    }
}

/// i-th case of the matrix: subset and protocol are enumerated (every one of
/// the 128 x 6 combinations recurs every 768 cases; protocols descend from 5), the
/// rest is drawn from a PRNG keyed by (seed, i).
pub fn matrix_case(i: usize, seed: u64, sp: &Space) -> Config {
    let mut rng = Rng::new(mix(seed, i as u64));
    let bits = (i % 128) as u32;
    // protocols in DESCENDING order (5 first): process-wide state left behind by a higher protocol
    // would then leak into lower-protocol outputs, where it violates the per-protocol properties
    let proto = (5 - (i / 128) % 6) as u8;
    let mut mutators = subset(bits);
    // occasionally permute / duplicate the list (order matters: first wins)
    match rng.below(8) {
        0 => mutators.reverse(),
        1 => {
            if !mutators.is_empty() {
                let k = rng.below(mutators.len() as u64) as usize;
                mutators.rotate_left(k);
            }
        }
        2 => {
            // a mutator registered twice (any of them, anywhere in the list)
            if !mutators.is_empty() {
                let m = mutators[rng.below(mutators.len() as u64) as usize];
                let at = rng.below(mutators.len() as u64 + 1) as usize;
                mutators.insert(at, m);
            }
        }
        3 => {
            // the whole list twice
            let copy = mutators.clone();
            if rng.below(2) == 0 {
                mutators.extend(copy);
            }
        }
        _ => {}
    }
    let unsafe_mut = match sp.force_unsafe {
        Some(u) => u,
        None => sp.allow_unsafe && rng.below(2) == 0,
    };
    let (min, max) = *rng.pick(&sp.ranges);
    let rate = *rng.pick(&sp.rates);
    let ext = sp.ext.unwrap_or_else(|| rng.below(2) == 0);
    let buf = sp.buf.unwrap_or_else(|| rng.below(2) == 0);
    let entropy = if rng.below(100) < sp.bytes_mode_share {
        Entropy::Bytes(fuzz_bytes(&mut rng))
    } else {
        Entropy::Seed(rng.next() >> rng.below(64))
    };
    Config {
        proto,
        entropy,
        min,
        max,
        mutators,
        rate,
        raw_rate: false,
        // a quarter of the cases run on a generator that already produced another pickle
        warmup: if rng.below(4) == 0 { Some(rng.next() >> 8) } else { None },
        // builder-call order (0..2) / Generator::default() construction (3, 4) / built for another
        // protocol and retargeted through state.version (5, 6); bit 8 = every setter first called with
        // another value; bit 16 = mutator
        // objects created with the opposite unsafe flag
        order: rng.below(7) as u8 | if rng.below(100) < sp.flip_share { 16 } else { 0 } | if rng.below(4) == 0 { 8 } else { 0 },
        bufsize: match rng.below(12) {
            0 => Some(256),
            1 => Some(1024),
            2 => Some(1 << 20),
            _ => None,
        },
        unsafe_mut,
        ext,
        buf,
    }
}

// ---------------------------------------------------------------- steering through fuzzer bytes (W4/W5)

pub const FILLER_LEN: usize = 96;

pub fn filler(kind: u8, salt: u64) -> Vec<u8> {
    match kind {
        0 => vec![0u8; FILLER_LEN],
        1 => vec![0xFFu8; FILLER_LEN],
        3 => {
            // argument bytes that spell an integer at the edge of an encoding width (the values where
            // a shortest-form or sign-extension computation changes its answer), behind one byte for
            // the integer emitter's own choice of opcode (sometimes without it)
            const EDGES: [i64; 44] = [
                0, 1, -1, 2, -2, 127, 128, 129, -127, -128, -129, 255, 256, 257, -255, -256, -257, 32767, 32768, 32769, -32767, -32768, -32769, 65535,
                65536, -65535, -65536, 8388607, 8388608, -8388607, -8388608, -8388609, 16777215, 16777216, -16777216, 2147483647, -2147483648,
                -2147483647, 2147483646, 4294967295, 4294967296, -4294967296, i64::MAX, i64::MIN,
            ];
            let mut r = Rng::new(salt);
            let w = EDGES[r.below(EDGES.len() as u64) as usize];
            let mut v = Vec::with_capacity(FILLER_LEN);
            if r.below(3) != 0 {
                v.push(r.below(8) as u8);
            }
            v.extend_from_slice(&w.to_le_bytes());
            v.extend_from_slice(&(w as i32).to_le_bytes());
            let rest = r.bytes(FILLER_LEN.saturating_sub(v.len()));
            v.extend(rest);
            v
        }
        _ => Rng::new(salt).bytes(FILLER_LEN),
    }
}

/// what one probe run tells the driver about the state after `depth` body opcodes
#[derive(Debug, Clone)]
pub struct Probe {
    /// bytes of input consumed before the choice byte of step `depth`
    pub consumed: usize,
    /// candidate opcodes offered at step `depth` (opcode byte values)
    pub valid: Vec<u8>,
    /// generator's stack tags / memo size after `depth` opcodes (None at depth 0)
    pub stack: Vec<u8>,
    pub memo_len: usize,
}

/// Extract the `k`-th (0-based) Choice event and the Step preceding it.
pub fn probe_from_events(events: &[Event], k: usize, input_len: usize) -> Option<Probe> {
    let mut seen = 0usize;
    let mut last_step: (Vec<u8>, usize) = (Vec::new(), 0);
    for ev in events {
        match ev {
            Event::Choice {
                valid,
                entropy_left,
                ..
            } => {
                if seen == k {
                    let left = (*entropy_left)?;
                    return Some(Probe {
                        consumed: input_len - left,
                        valid: valid.clone(),
                        stack: last_step.0.clone(),
                        memo_len: last_step.1,
                    });
                }
                seen += 1;
            }
            Event::Step {
                phase: Phase::Body,
                stack,
                memo_len,
                ..
            } => {
                last_step = (stack.clone(), *memo_len);
            }
            _ => {}
        }
    }
    None
}

pub fn choice_byte(j: usize, n: usize) -> Vec<u8> {
    // arbitrary::choose_index(n): no byte for n==1, one byte (value % n) for n<=256
    if n <= 1 {
        vec![]
    } else {
        assert!(n <= 256);
        vec![j as u8]
    }
}

pub fn trace_cfg() -> verif::Config {
    verif::Config {
        snapshots: true,
        choices: true,
        step_limit: 0,
    }
}

/// abstract state used to prune the breadth-first search beyond the exhaustive depth
pub fn abstract_state(stack: &[u8], memo_len: usize) -> u64 {
    let n = stack.len();
    let mut h: u64 = 0xcbf29ce484222325;
    let mut put = |x: u64| {
        h = (h ^ x).wrapping_mul(0x100000001b3);
    };
    for d in 0..4 {
        put(if d < n { stack[n - 1 - d] as u64 + 1 } else { 0 });
    }
    let mark = stack.iter().rposition(|&t| t == 0);
    match mark {
        Some(i) => {
            put(1);
            put(if i > 0 { stack[i - 1] as u64 + 1 } else { 0 });
            let above = n - 1 - i;
            put(if above == 0 { 0 } else { 1 + (above % 2) as u64 });
            put(if i + 1 < n { stack[i + 1] as u64 + 1 } else { 0 });
        }
        None => put(0),
    }
    put(n.min(4) as u64);
    put((memo_len > 0) as u64);
    h
}

#[derive(Clone)]
pub struct Node {
    pub prefix: Vec<u8>,
    pub depth: usize,
    pub valid: Vec<u8>,
}

pub struct ExploreStats {
    pub runs: u64,
    pub nodes_expanded: u64,
    pub abstract_states: usize,
    pub max_depth: usize,
    pub levels: Vec<usize>,
}

/// Level-synchronous exploration of the generator's decision tree for one
/// (protocol, flags, filler). Every opcode-choice sequence up to
/// `exhaustive_depth` is run; deeper, a prefix is expanded only when it
/// reached an abstract state not seen before, until `max_depth` or
/// `budget_runs`. `check` sees every run (with its full event log).
#[allow(clippy::too_many_arguments)]
pub fn explore<F>(
    base: &Config,
    filler_kind: u8,
    exhaustive_depth: usize,
    max_depth: usize,
    budget_runs: u64,
    acc: &mut Acc,
    check: &F,
) -> ExploreStats
where
    F: Fn(&Config, &CaseResult, &mut Acc) + Sync,
{
    let mut stats = ExploreStats {
        runs: 0,
        nodes_expanded: 0,
        abstract_states: 0,
        max_depth: 0,
        levels: vec![],
    };
    let mk_cfg = |input: Vec<u8>, k: usize| -> Config {
        Config {
            entropy: Entropy::Bytes(input),
            min: k,
            max: k,
            ..base.clone()
        }
    };
    // roots: for P>=4 the first byte is the FRAME coin
    let mut frontier: Vec<Node> = Vec::new();
    let root_prefixes: Vec<Vec<u8>> = if base.proto >= 4 {
        vec![vec![0u8], vec![1u8]]
    } else {
        vec![vec![]]
    };
    for rp in root_prefixes {
        let mut input = rp.clone();
        input.extend(filler(filler_kind, 1));
        let cfg = mk_cfg(input.clone(), 1);
        let res = run_case(&cfg, Some(trace_cfg()));
        stats.runs += 1;
        if let Some(p) = probe_from_events(&res.events, 0, input.len()) {
            frontier.push(Node {
                prefix: input[..p.consumed].to_vec(),
                depth: 0,
                valid: p.valid,
            });
        }
        check(&cfg, &res, acc);
    }
    let mut seen_states: HashSet<u64> = HashSet::new();
    let mut depth = 0usize;
    while !frontier.is_empty() && depth < max_depth && (depth < exhaustive_depth || stats.runs < budget_runs) {
        if depth >= exhaustive_depth {
            // beyond the exhaustive depth the run budget bounds the level width
            let room = (budget_runs.saturating_sub(stats.runs) / 24 + 1) as usize;
            if frontier.len() > room {
                frontier.truncate(room);
            }
        }
        stats.levels.push(frontier.len());
        // expand all nodes of this level in parallel
        struct Out {
            acc: Acc,
            children: Vec<(Node, u64)>,
            runs: u64,
            local_seen: HashSet<u64>,
        }
        let fr = &frontier;
        let seen_ref = &seen_states;
        let out = par_run(
            fr.len(),
            || Out {
                acc: Acc::new(),
                children: Vec::new(),
                runs: 0,
                local_seen: HashSet::new(),
            },
            |ni, o: &mut Out| {
                let node = &fr[ni];
                let n = node.valid.len();
                for j in 0..n {
                    let mut input = node.prefix.clone();
                    input.extend(choice_byte(j, n));
                    let salt = mix(ni as u64, j as u64) ^ node.depth as u64;
                    input.extend(filler(filler_kind, salt));
                    let cfg = mk_cfg(input.clone(), node.depth + 2);
                    let res = run_case(&cfg, Some(trace_cfg()));
                    o.runs += 1;
                    if let Some(p) = probe_from_events(&res.events, node.depth + 1, input.len()) {
                        if p.consumed <= input.len() && input.len() - p.consumed > 8 {
                            let st = abstract_state(&p.stack, p.memo_len);
                            // beyond the exhaustive depth only prefixes that reach a new abstract state go on
                            let keep = node.depth + 1 < exhaustive_depth
                                || (!seen_ref.contains(&st) && o.local_seen.insert(st));
                            if !keep {
                                check(&cfg, &res, &mut o.acc);
                                continue;
                            }
                            o.children.push((
                                Node {
                                    prefix: input[..p.consumed].to_vec(),
                                    depth: node.depth + 1,
                                    valid: p.valid,
                                },
                                st,
                            ));
                        } else {
                            o.acc.count("explore_filler_exhausted", 1);
                        }
                    }
                    check(&cfg, &res, &mut o.acc);
                }
            },
            |a, b| {
                a.acc.merge(b.acc);
                a.children.extend(b.children);
                a.runs += b.runs;
            },
        );
        stats.runs += out.runs;
        stats.nodes_expanded += frontier.len() as u64;
        acc.merge(out.acc);
        depth += 1;
        stats.max_depth = depth;
        let mut next = Vec::new();
        // deterministic order: sort children by prefix
        let mut children = out.children;
        children.sort_by(|a, b| a.0.prefix.cmp(&b.0.prefix));
        for (node, st) in children {
            let new_state = seen_states.insert(st);
            if depth < exhaustive_depth || new_state {
                next.push(node);
            }
        }
        frontier = next;
    }
    stats.abstract_states = seen_states.len();
    stats
}

/// Policy-steered long run (W5): at every step the policy picks one of the
/// offered opcodes; the input is extended accordingly. Returns the final
/// configuration (whose run reproduces the steered pickle).
pub fn steer<P>(base: &Config, steps: usize, filler_kind: u8, salt: u64, mut policy: P) -> Config
where
    P: FnMut(usize, &Probe) -> usize,
{
    let mut prefix: Vec<u8> = if base.proto >= 4 {
        vec![(salt & 1) as u8]
    } else {
        vec![]
    };
    let mk_cfg = |input: Vec<u8>, k: usize| -> Config {
        Config {
            entropy: Entropy::Bytes(input),
            min: k,
            max: k,
            ..base.clone()
        }
    };
    // re-probe every step; cost is quadratic but steps are cheap
    let mut d = 0usize;
    while d < steps {
        let mut input = prefix.clone();
        input.extend(filler(filler_kind, mix(salt, d as u64)));
        let cfg = mk_cfg(input.clone(), d + 1);
        let res = run_case(&cfg, Some(trace_cfg()));
        let probe = match probe_from_events(&res.events, d, input.len()) {
            Some(p) => p,
            None => break,
        };
        let n = probe.valid.len();
        if n == 0 {
            break;
        }
        let j = policy(d, &probe).min(n - 1);
        prefix = input[..probe.consumed].to_vec();
        prefix.extend(choice_byte(j, n));
        // argument bytes of the chosen opcode: keep filler bytes; they are fixed by
        // re-probing at the next step (consumed tells how many were used)
        d += 1;
    }
    let mut input = prefix;
    input.extend(filler(filler_kind, mix(salt, 0xFFFF)));
    mk_cfg(input, steps)
}

// ---------------------------------------------------------------- long steering (speculative)

/// result of `steer_long`
pub struct LongSteer {
    pub cfg: Config,
    /// body steps whose choice was confirmed to follow the policy
    pub matched: usize,
    pub runs: usize,
    pub complete: bool,
}

/// Policy-steered run of thousands of opcodes. `steer` re-probes every step (quadratic);
/// this one guesses that the choice pattern is eventually periodic: after each corrected
/// step the rest of the input is filled with a cyclic repetition of the bytes since the
/// last step that chose the same opcode from a candidate list of the same size, and one
/// full-length run confirms (or refutes, at the first deviating step) thousands of steps
/// at once. `policy(step, offered opcodes) -> index into the offered list`.
pub fn steer_long<P>(base: &Config, steps: usize, frame: bool, max_runs: usize, policy: P) -> LongSteer
where
    P: Fn(usize, &[u8]) -> usize,
{
    let mut input: Vec<u8> = if base.proto >= 4 { vec![frame as u8] } else { vec![] };
    input.extend([0u8; 32]);
    let mk_cfg = |input: Vec<u8>, k: usize| -> Config {
        Config {
            entropy: Entropy::Bytes(input),
            min: k,
            max: k,
            ..base.clone()
        }
    };
    let tr = verif::Config {
        snapshots: false,
        choices: true,
        step_limit: 0,
    };
    // confirmed steps: (input position of the choice byte, chosen opcode, size of the offered list)
    let mut info: Vec<(usize, u8, usize)> = Vec::new();
    let mut l = steps.min(32);
    let mut runs = 0usize;
    let mut complete = false;
    while runs < max_runs {
        let cfg = mk_cfg(input.clone(), l);
        let res = run_case(&cfg, Some(tr));
        runs += 1;
        if !matches!(res.outcome, Outcome::Ok(_)) {
            break;
        }
        let ch: Vec<(usize, &Vec<u8>)> = res
            .events
            .iter()
            .filter_map(|e| match e {
                Event::Choice {
                    valid,
                    entropy_left: Some(left),
                    ..
                } => Some((input.len() - *left, valid)),
                _ => None,
            })
            .collect();
        let mut mismatch = None;
        let mut dead = false;
        for e in info.len()..ch.len() {
            let (pos, valid) = ch[e];
            let n = valid.len();
            if n == 0 || n > 256 {
                dead = true;
                break;
            }
            let want = policy(e, valid).min(n - 1);
            let got = if n <= 1 {
                0
            } else if pos >= input.len() {
                usize::MAX
            } else {
                input[pos] as usize % n
            };
            if got != want {
                mismatch = Some((e, pos, want, n, valid[want]));
                break;
            }
            info.push((pos, valid[want], n));
        }
        if dead {
            break;
        }
        match mismatch {
            None => {
                if ch.len() < l {
                    break;
                }
                if l == steps {
                    complete = true;
                    break;
                }
                l = (l * 4).min(steps);
            }
            Some((e, pos, want, n, op)) => {
                let pos = pos.min(input.len());
                let prev = info.iter().rposition(|&(_, o, m)| o == op && m == n);
                let mut cyc: Vec<u8> = match prev {
                    Some(p) => input[info[p].0.min(pos)..pos].to_vec(),
                    None => vec![],
                };
                let per = match prev {
                    Some(p) => (e - p).max(1),
                    None => 1,
                };
                if cyc.is_empty() {
                    cyc = vec![want as u8; 16];
                } else if n > 1 {
                    cyc[0] = want as u8;
                }
                input.truncate(pos);
                let need = (steps - e + 8) * (cyc.len() / per + 1) + 64;
                let mut k = 0usize;
                while k < need {
                    input.extend_from_slice(&cyc);
                    k += cyc.len();
                }
            }
        }
    }
    LongSteer {
        cfg: mk_cfg(input, steps),
        matched: info.len(),
        runs,
        complete,
    }
}

/// "X whenever offered, else Y whenever offered, else the first offered" for opcode bytes X, Y
pub fn greedy_policy(x: u8, y: u8) -> impl Fn(usize, &[u8]) -> usize {
    move |_d, valid| {
        if let Some(i) = valid.iter().position(|&o| o == x) {
            i
        } else if let Some(i) = valid.iter().position(|&o| o == y) {
            i
        } else {
            0
        }
    }
}

/// step d wants ops[d % len]; if that is not offered, the first offered one of the cycle, else
/// the first offered opcode
pub fn cycle_policy(ops: &'static [u8]) -> impl Fn(usize, &[u8]) -> usize {
    move |d, valid| {
        let k = ops.len();
        for j in 0..k {
            let want = ops[(d + j) % k];
            if let Some(i) = valid.iter().position(|&o| o == want) {
                return i;
            }
        }
        0
    }
}

/// opcode cycles for the deep-state block (groups of one item, self-insertions, memo churn..)
pub const DEEP_CYCLES: [&[u8]; 20] = [
    b"(N",
    b"((Nt",
    b"]2a",
    b"}22s",
    b"N\x94",
    b"Nq",
    b"Np",
    b"(NNd",
    b"(Nl",
    b"\x8f(N\x90",
    b"NN\x86",
    b"N0",
    b"]Na0",
    b"](NNe",
    b"}(NNu",
    b"N\x85\x94",
    b"]q2a",
    b"(]2a",
    b"N2\x862\x86",
    b"K2\x87",
];

/// (X, Y) pairs for the deep-state block: every opcode of the table greedily, backed by the
/// openers that make it applicable
pub fn deep_pairs() -> Vec<(u8, u8)> {
    let openers: [u8; 12] = [b'(', b']', b'}', b'N', b'2', b'\x8f', b')', b'\x94', b'q', b'K', b'p', b'I'];
    let mut v = Vec::new();
    for row in crate::optable::OPTABLE.iter() {
        let x = row.code;
        if x == b'.' || x == 0x80 || x == 0x95 {
            continue;
        }
        for y in openers {
            if y != x {
                v.push((x, y));
            }
        }
    }
    v
}

// ---------------------------------------------------------------- oracle self-test streams

/// A structure-UNAWARE random opcode stream with well-formed arguments, used only to
/// test the oracles themselves (O1/O2 against CPython): most of these are rejected by
/// `dis`, in every way a stack/memo discipline can be broken, including MARKs consumed
/// as ordinary operands. Independent of the generator under test.
fn hostile_text(rng: &mut Rng) -> Vec<u8> {
    const PIECES: [&[u8]; 40] = [
        b"\\", b"\\x", b"\\x4", b"\\x41", b"\\xg1", b"\\u12", b"\\u1234", b"\\U0010ffff", b"\\U00110000", b"\\U1", b"'", b"\"", b"a", b"1",
        b"0", b"-", b"+", b"_", b".", b"e", b"E", b"L", b" ", b"\t", b"inf", b"nan", b"Infinity", b"0x1", b"1_0", b"1__0", b"\xff", b"\x80",
        b"\xc3\xa9", b"\xed\xa0\x80", b"\xf4\x90\x80\x80", b"\\777", b"\\8", b"\\\n", b"00", b"01",
    ];
    let k = rng.below(5) as usize;
    let mut v = Vec::new();
    for _ in 0..k {
        v.extend_from_slice(PIECES[rng.below(PIECES.len() as u64) as usize]);
    }
    v
}

fn hostile_arg(rng: &mut Rng, kind: &str, out: &mut Vec<u8>) {
    match kind {
        "" => {}
        "uint1" => out.push(rng.next() as u8),
        "uint2" => out.extend_from_slice(&(rng.next() as u16).to_le_bytes()),
        "int4" | "uint4" => {
            let v: u32 = *rng.pick(&[0u32, 1, 0x7fff_ffff, 0x8000_0000, 0xffff_ffff, 3]);
            out.extend_from_slice(&v.to_le_bytes());
        }
        "uint8" => {
            let v: u64 = *rng.pick(&[0u64, 1, 5, 0x7fff_ffff_ffff_ffff, 0x8000_0000_0000_0000, u64::MAX]);
            out.extend_from_slice(&v.to_le_bytes());
        }
        "float8" => out.extend_from_slice(&rng.next().to_be_bytes()),
        "decimalnl_short" | "decimalnl_long" | "floatnl" | "stringnl_noescape" | "unicodestringnl" => {
            out.extend(hostile_text(rng));
            if rng.below(8) != 0 {
                out.push(b'\n');
            }
        }
        "stringnl" => {
            const QS: [&[u8]; 3] = [b"'", b"\"", b""];
            out.extend_from_slice(QS[rng.below(3) as usize]);
            out.extend(hostile_text(rng));
            out.extend_from_slice(QS[rng.below(3) as usize]);
            if rng.below(8) != 0 {
                out.push(b'\n');
            }
        }
        "stringnl_noescape_pair" => {
            out.extend(hostile_text(rng));
            out.push(b'\n');
            out.extend(hostile_text(rng));
            if rng.below(8) != 0 {
                out.push(b'\n');
            }
        }
        _ => {
            // length-prefixed payloads: prefix width by kind, length possibly wrong / negative / huge
            let width = match kind {
                "long1" | "string1" | "bytes1" | "unicodestring1" => 1,
                "long4" | "string4" | "bytes4" | "unicodestring4" => 4,
                _ => 8,
            };
            let payload = hostile_text(rng);
            let n: u64 = match rng.below(6) {
                0 => payload.len() as u64 + 1 + rng.below(300),
                1 => 0x8000_0000,
                2 => u64::MAX,
                3 => 0,
                _ => payload.len() as u64,
            };
            out.extend_from_slice(&n.to_le_bytes()[..width]);
            out.extend_from_slice(&payload);
        }
    }
}

pub fn random_stream(rng: &mut Rng) -> Vec<u8> {
    use crate::optable::OPTABLE;
    let hostile = rng.below(4) == 0;
    let n = 1 + rng.below(24) as usize;
    let mut out = Vec::new();
    let hot: [&str; 24] = [
        "MARK", "POP", "POP_MARK", "DUP", "TUPLE", "LIST", "DICT", "APPENDS", "SETITEMS", "ADDITEMS", "APPEND", "SETITEM",
        "MEMOIZE", "BINPUT", "BINGET", "NONE", "EMPTY_LIST", "EMPTY_DICT", "TUPLE1", "TUPLE2", "BUILD", "REDUCE", "OBJ", "BINPERSID",
    ];
    for _ in 0..n {
        let row = if rng.below(3) == 0 {
            &OPTABLE[rng.below(OPTABLE.len() as u64) as usize]
        } else {
            crate::lexer::row_by_name(hot[rng.below(hot.len() as u64) as usize])
        };
        if row.name == "STOP" {
            continue;
        }
        out.push(row.code);
        let small = rng.below(4);
        // one stream in four carries hostile arguments (bad escapes, odd literals, invalid UTF-8,
        // length prefixes that do not match): this tests the O1 readers against CPython's
        if hostile && rng.below(3) == 0 {
            hostile_arg(rng, row.arg, &mut out);
            continue;
        }
        match row.arg {
            "" => {}
            "uint1" => out.push(small as u8),
            "uint2" => out.extend_from_slice(&(small as u16).to_le_bytes()),
            "int4" | "uint4" => out.extend_from_slice(&(small as u32).to_le_bytes()),
            "uint8" => out.extend_from_slice(&small.to_le_bytes()),
            "float8" => out.extend_from_slice(&1.5f64.to_be_bytes()),
            "decimalnl_short" | "decimalnl_long" => out.extend_from_slice(format!("{}\n", small).as_bytes()),
            "floatnl" => out.extend_from_slice(b"2.5\n"),
            "stringnl" => out.extend_from_slice(b"'ab'\n"),
            "stringnl_noescape" | "unicodestringnl" => out.extend_from_slice(b"ab\n"),
            "stringnl_noescape_pair" => out.extend_from_slice(b"os\nsep\n"),
            "long1" | "string1" | "bytes1" | "unicodestring1" => {
                out.push(2);
                out.extend_from_slice(b"hi");
            }
            "long4" | "string4" | "bytes4" | "unicodestring4" => {
                out.extend_from_slice(&2u32.to_le_bytes());
                out.extend_from_slice(b"hi");
            }
            "bytes8" | "bytearray8" | "unicodestring8" => {
                out.extend_from_slice(&2u64.to_le_bytes());
                out.extend_from_slice(b"hi");
            }
            other => panic!("random_stream: no argument writer for {}", other),
        }
    }
    out.push(b'.');
    out
}
