//! Shared infrastructure: configurations, case execution under `catch_unwind`,
//! deterministic PRNG for workload choices, 128-bit content hash, parallel
//! driver, evidence / replay writers.

use std::collections::HashSet;
use std::panic::{catch_unwind, AssertUnwindSafe};
use std::sync::atomic::{AtomicUsize, Ordering};
use std::sync::Mutex;

use pickle_fuzzer::verif::{self, Event};
use pickle_fuzzer::{Generator, MutatorKind, Version};
use serde_json::{json, Value};

// ---------------------------------------------------------------- PRNG

/// splitmix64 — workload-side PRNG (independent of the code under test)
#[derive(Clone)]
pub struct Rng(pub u64);

impl Rng {
    pub fn new(seed: u64) -> Self {
        Rng(seed ^ 0x9E37_79B9_7F4A_7C15)
    }
    pub fn next(&mut self) -> u64 {
        self.0 = self.0.wrapping_add(0x9E37_79B9_7F4A_7C15);
        let mut z = self.0;
        z = (z ^ (z >> 30)).wrapping_mul(0xBF58_476D_1CE4_E5B9);
        z = (z ^ (z >> 27)).wrapping_mul(0x94D0_49BB_1331_11EB);
        z ^ (z >> 31)
    }
    pub fn below(&mut self, n: u64) -> u64 {
        if n == 0 {
            0
        } else {
            self.next() % n
        }
    }
    pub fn pick<'a, T>(&mut self, xs: &'a [T]) -> &'a T {
        &xs[self.below(xs.len() as u64) as usize]
    }
    pub fn bytes(&mut self, n: usize) -> Vec<u8> {
        let mut v = Vec::with_capacity(n);
        while v.len() < n {
            let x = self.next().to_le_bytes();
            let k = (n - v.len()).min(8);
            v.extend_from_slice(&x[..k]);
        }
        v
    }
}

pub fn mix(a: u64, b: u64) -> u64 {
    let mut r = Rng::new(a.wrapping_mul(0x1000_0000_01B3).wrapping_add(b));
    r.next()
}

// ---------------------------------------------------------------- hash

/// dependency-free 128-bit content hash (two independent 64-bit FNV/mix lanes).
/// Used only for de-duplication counts, never for equality verdicts.
pub fn hash128(b: &[u8]) -> u128 {
    let mut h1: u64 = 0xcbf2_9ce4_8422_2325;
    let mut h2: u64 = 0x6c62_272e_07bb_0142;
    for &x in b {
        h1 = (h1 ^ x as u64).wrapping_mul(0x0000_0100_0000_01B3);
        h2 = (h2.rotate_left(5) ^ x as u64).wrapping_mul(0x9E37_79B9_7F4A_7C15);
    }
    h1 ^= b.len() as u64;
    h2 = h2.wrapping_add((b.len() as u64).wrapping_mul(0xBF58_476D_1CE4_E5B9));
    h2 ^= h2 >> 29;
    // top bit is kept clear: monitors use it to tag non-output entries in the same set
    (((h1 as u128) << 64) | h2 as u128) & !(1u128 << 127)
}

pub fn hex(b: &[u8]) -> String {
    let mut s = String::with_capacity(b.len() * 2);
    for x in b {
        s.push_str(&format!("{:02x}", x));
    }
    s
}

pub fn unhex(s: &str) -> Vec<u8> {
    let s = s.trim();
    (0..s.len() / 2)
        .map(|i| u8::from_str_radix(&s[2 * i..2 * i + 2], 16).expect("bad hex"))
        .collect()
}

// ---------------------------------------------------------------- configuration

#[derive(Debug, Clone, Copy, PartialEq, Eq, Hash, PartialOrd, Ord)]
pub enum Mk {
    Bitflip,
    Boundary,
    Offbyone,
    Stringlen,
    Character,
    Memoindex,
    Typeconfusion,
}

pub const ALL_MK: [Mk; 7] = [
    Mk::Bitflip,
    Mk::Boundary,
    Mk::Offbyone,
    Mk::Stringlen,
    Mk::Character,
    Mk::Memoindex,
    Mk::Typeconfusion,
];

impl Mk {
    pub fn name(self) -> &'static str {
        match self {
            Mk::Bitflip => "bitflip",
            Mk::Boundary => "boundary",
            Mk::Offbyone => "offbyone",
            Mk::Stringlen => "stringlen",
            Mk::Character => "character",
            Mk::Memoindex => "memoindex",
            Mk::Typeconfusion => "typeconfusion",
        }
    }
    pub fn from_name(s: &str) -> Mk {
        *ALL_MK
            .iter()
            .find(|m| m.name() == s)
            .unwrap_or_else(|| panic!("unknown mutator {}", s))
    }
    pub fn kind(self) -> MutatorKind {
        match self {
            Mk::Bitflip => MutatorKind::Bitflip,
            Mk::Boundary => MutatorKind::Boundary,
            Mk::Offbyone => MutatorKind::Offbyone,
            Mk::Stringlen => MutatorKind::Stringlen,
            Mk::Character => MutatorKind::Character,
            Mk::Memoindex => MutatorKind::Memoindex,
            Mk::Typeconfusion => MutatorKind::Typeconfusion,
        }
    }
}

/// the i-th of the 128 mutator subsets, in canonical order
pub fn subset(bits: u32) -> Vec<Mk> {
    ALL_MK
        .iter()
        .enumerate()
        .filter(|(i, _)| bits & (1 << i) != 0)
        .map(|(_, m)| *m)
        .collect()
}

#[derive(Debug, Clone, PartialEq)]
pub enum Entropy {
    Seed(u64),
    Bytes(Vec<u8>),
}

#[derive(Debug, Clone, PartialEq)]
pub struct Config {
    pub proto: u8,
    pub entropy: Entropy,
    pub min: usize,
    pub max: usize,
    pub mutators: Vec<Mk>,
    /// set through the builder (clamped) unless `raw_rate`
    pub rate: f64,
    /// write the public field directly (out-of-range / NaN rates)
    pub raw_rate: bool,
    pub unsafe_mut: bool,
    pub ext: bool,
    pub buf: bool,
}

impl Config {
    pub fn default_for(proto: u8, entropy: Entropy) -> Self {
        Config {
            proto,
            entropy,
            min: 60,
            max: 300,
            mutators: vec![],
            rate: 0.1,
            raw_rate: false,
            unsafe_mut: false,
            ext: false,
            buf: false,
        }
    }

    pub fn version(&self) -> Version {
        Version::try_from(self.proto as usize).expect("proto 0..5")
    }

    pub fn build(&self) -> Generator {
        let mut g = Generator::new(self.version()).with_opcode_range(self.min, self.max);
        if let Entropy::Seed(s) = self.entropy {
            g = g.with_seed(s);
        }
        if !self.mutators.is_empty() {
            let ms = self
                .mutators
                .iter()
                .map(|m| m.kind().create(self.unsafe_mut))
                .collect();
            g = g.with_mutators(ms);
        }
        g = g.with_mutation_rate(self.rate);
        if self.raw_rate {
            g.mutation_rate = self.rate;
        }
        g = g
            .with_unsafe_mutations(self.unsafe_mut)
            .with_ext_opcodes(self.ext)
            .with_buffer_opcodes(self.buf);
        g
    }

    pub fn to_json(&self) -> Value {
        let rate = if self.rate.is_finite() {
            json!(self.rate)
        } else {
            json!(format!("{}", self.rate))
        };
        json!({
            "proto": self.proto,
            "entropy": match &self.entropy {
                Entropy::Seed(s) => json!({"seed": s}),
                Entropy::Bytes(b) => json!({"bytes_hex": hex(b)}),
            },
            "min": self.min, "max": self.max,
            "mutators": self.mutators.iter().map(|m| m.name()).collect::<Vec<_>>(),
            "rate": rate, "raw_rate": self.raw_rate,
            "unsafe": self.unsafe_mut, "ext": self.ext, "buf": self.buf,
        })
    }

    pub fn from_json(v: &Value) -> Config {
        let e = &v["entropy"];
        let entropy = if let Some(s) = e.get("seed") {
            Entropy::Seed(s.as_u64().expect("seed"))
        } else {
            Entropy::Bytes(unhex(e["bytes_hex"].as_str().expect("bytes_hex")))
        };
        let rate = match &v["rate"] {
            Value::String(s) => s.parse::<f64>().unwrap_or(f64::NAN),
            x => x.as_f64().unwrap_or(0.1),
        };
        Config {
            proto: v["proto"].as_u64().unwrap_or(3) as u8,
            entropy,
            min: v["min"].as_u64().unwrap_or(60) as usize,
            max: v["max"].as_u64().unwrap_or(300) as usize,
            mutators: v["mutators"]
                .as_array()
                .map(|a| a.iter().map(|m| Mk::from_name(m.as_str().unwrap())).collect())
                .unwrap_or_default(),
            rate,
            raw_rate: v["raw_rate"].as_bool().unwrap_or(false),
            unsafe_mut: v["unsafe"].as_bool().unwrap_or(false),
            ext: v["ext"].as_bool().unwrap_or(false),
            buf: v["buf"].as_bool().unwrap_or(false),
        }
    }

    pub fn short(&self) -> String {
        format!(
            "P{} {} [{},{}] mut={:?}@{} unsafe={} ext={} buf={}",
            self.proto,
            match &self.entropy {
                Entropy::Seed(s) => format!("seed={}", s),
                Entropy::Bytes(b) => format!("bytes[{}]", b.len()),
            },
            self.min,
            self.max,
            self.mutators.iter().map(|m| m.name()).collect::<Vec<_>>(),
            self.rate,
            self.unsafe_mut as u8,
            self.ext as u8,
            self.buf as u8
        )
    }
}

// ---------------------------------------------------------------- case execution

#[derive(Debug, Clone)]
pub enum Outcome {
    Ok(Vec<u8>),
    Err(String),
    Panic(String),
}

pub struct CaseResult {
    pub outcome: Outcome,
    pub events: Vec<Event>,
}

pub fn panic_msg(p: Box<dyn std::any::Any + Send>) -> String {
    if let Some(s) = p.downcast_ref::<&str>() {
        s.to_string()
    } else if let Some(s) = p.downcast_ref::<String>() {
        s.clone()
    } else {
        "<non-string panic payload>".to_string()
    }
}

/// silence the default panic printer for expected/handled panics
pub fn quiet_panics() {
    std::panic::set_hook(Box::new(|_| {}));
}

pub fn gen_once(g: &mut Generator, entropy: &Entropy) -> Outcome {
    let r = catch_unwind(AssertUnwindSafe(|| match entropy {
        Entropy::Seed(_) => g.generate(),
        Entropy::Bytes(b) => g.generate_from_arbitrary(b),
    }));
    match r {
        Ok(Ok(b)) => Outcome::Ok(b),
        Ok(Err(e)) => Outcome::Err(format!("{}", e)),
        Err(p) => Outcome::Panic(panic_msg(p)),
    }
}

/// run one fresh-generator case; `trace` = Some(cfg) records the hook event log
pub fn run_case(cfg: &Config, trace: Option<verif::Config>) -> CaseResult {
    let mut g = cfg.build();
    if let Some(t) = trace {
        verif::start(t);
    }
    let outcome = gen_once(&mut g, &cfg.entropy);
    let events = if trace.is_some() { verif::take() } else { Vec::new() };
    drop(g);
    CaseResult { outcome, events }
}

// ---------------------------------------------------------------- parallel driver

pub fn n_threads() -> usize {
    std::env::var("VERIF_THREADS")
        .ok()
        .and_then(|s| s.parse().ok())
        .unwrap_or_else(|| {
            std::thread::available_parallelism()
                .map(|n| n.get())
                .unwrap_or(8)
                .min(16)
        })
}

/// run `f(i, &mut acc)` for i in 0..n on all cores; accumulators merged by `merge`.
pub fn par_run<A, F, M>(n: usize, make: impl Fn() -> A + Sync, f: F, mut merge: M) -> A
where
    A: Send,
    F: Fn(usize, &mut A) + Sync,
    M: FnMut(&mut A, A),
{
    let next = AtomicUsize::new(0);
    let threads = n_threads().min(n.max(1));
    let results: Mutex<Vec<A>> = Mutex::new(Vec::new());
    std::thread::scope(|s| {
        for _ in 0..threads {
            s.spawn(|| {
                let mut acc = make();
                loop {
                    let i = next.fetch_add(1, Ordering::Relaxed);
                    if i >= n {
                        break;
                    }
                    f(i, &mut acc);
                }
                results.lock().unwrap().push(acc);
            });
        }
    });
    let mut all = results.into_inner().unwrap();
    let mut first = all.pop().unwrap_or_else(&make);
    for a in all {
        merge(&mut first, a);
    }
    first
}

// ---------------------------------------------------------------- violations / evidence

#[derive(Debug, Clone)]
pub struct Violation {
    pub property: String,
    /// stable signature for known-finding matching
    pub signature: String,
    pub message: String,
    pub replay: Value,
}

pub const SET_CAP: usize = 2_000_000;

/// per-check accumulator shared by all monitors
pub struct Acc {
    pub evaluations: u64,
    pub distinct: HashSet<u128>,
    pub nontrivial: HashSet<u128>,
    pub samples: Vec<Value>,
    pub violations: Vec<Violation>,
    pub counters: std::collections::BTreeMap<String, u64>,
    pub inconclusive: Vec<String>,
    /// pickles queued for the CPython cross-check: (bytes, o2_accepts, n_ops)
    pub o3: Vec<(Vec<u8>, bool, u32)>,
    pub max_violations: usize,
    /// per-thread cap on sampled (unflagged) pickles queued for the CPython cross-check
    pub o3_cap: usize,
}

impl Default for Acc {
    fn default() -> Self {
        Self::new()
    }
}

impl Acc {
    pub fn new() -> Self {
        Acc {
            evaluations: 0,
            distinct: HashSet::new(),
            nontrivial: HashSet::new(),
            samples: Vec::new(),
            violations: Vec::new(),
            counters: Default::default(),
            inconclusive: Vec::new(),
            o3: Vec::new(),
            max_violations: 50,
            o3_cap: if std::env::var("PFV_TIER").map(|t| t == "thorough").unwrap_or(false) { 12_000 } else { 1_200 },
        }
    }
    /// distinct-output bookkeeping is capped (conservative undercount beyond the cap)
    pub fn ins_distinct(&mut self, h: u128) {
        if self.distinct.len() < SET_CAP {
            self.distinct.insert(h);
        }
    }
    pub fn ins_nontrivial(&mut self, h: u128) {
        if self.nontrivial.len() < SET_CAP {
            self.nontrivial.insert(h);
        }
    }
    pub fn count(&mut self, key: &str, n: u64) {
        *self.counters.entry(key.to_string()).or_insert(0) += n;
    }
    pub fn max(&mut self, key: &str, n: u64) {
        let e = self.counters.entry(key.to_string()).or_insert(0);
        if n > *e {
            *e = n;
        }
    }
    pub fn get(&self, key: &str) -> u64 {
        self.counters.get(key).copied().unwrap_or(0)
    }
    pub fn sample(&mut self, v: Value) {
        if self.samples.len() < 6 {
            self.samples.push(v);
        }
    }
    pub fn violate(&mut self, v: Violation) {
        if self.violations.len() < self.max_violations {
            self.violations.push(v);
        } else {
            self.count("violations_dropped_over_cap", 1);
        }
    }
    pub fn merge(&mut self, o: Acc) {
        self.evaluations += o.evaluations;
        for h in o.distinct {
            self.ins_distinct(h);
        }
        for h in o.nontrivial {
            self.ins_nontrivial(h);
        }
        for s in o.samples {
            self.sample(s);
        }
        for v in o.violations {
            self.violate(v);
        }
        for (k, n) in o.counters {
            if k.starts_with("max_") {
                self.max(&k, n);
            } else {
                self.count(&k, n);
            }
        }
        self.inconclusive.extend(o.inconclusive);
        self.o3.extend(o.o3);
    }
}

pub fn sample_of(cfg: &Config, bytes: &[u8], ops: &[&str]) -> Value {
    json!({
        "config": cfg.to_json(),
        "len": bytes.len(),
        "head_hex": hex(&bytes[..bytes.len().min(48)]),
        "opcodes_head": ops.iter().take(24).collect::<Vec<_>>(),
        "n_opcodes": ops.len(),
    })
}
