//! Shared infrastructure: configurations, case execution under `catch_unwind`,
//! deterministic PRNG for workload choices, 128-bit content hash, parallel
//! driver, evidence / replay writers.

use std::collections::HashSet;
use std::panic::{catch_unwind, AssertUnwindSafe};
use std::sync::atomic::{AtomicUsize, Ordering};
use std::sync::Mutex;

use pickle_fuzzer::verif::{self, Event};
use pickle_fuzzer::{Generator, MutatorKind, Version};
use serde_json::{json, Value};

// ---------------------------------------------------------------- PRNG

/// splitmix64 — workload-side PRNG (independent of the code under test)
#[derive(Clone)]
pub struct Rng(pub u64);

impl Rng {
    pub fn new(seed: u64) -> Self {
        Rng(seed ^ 0x9E37_79B9_7F4A_7C15)
    }
    pub fn next(&mut self) -> u64 {
        self.0 = self.0.wrapping_add(0x9E37_79B9_7F4A_7C15);
        let mut z = self.0;
        z = (z ^ (z >> 30)).wrapping_mul(0xBF58_476D_1CE4_E5B9);
        z = (z ^ (z >> 27)).wrapping_mul(0x94D0_49BB_1331_11EB);
        z ^ (z >> 31)
    }
    pub fn below(&mut self, n: u64) -> u64 {
        if n == 0 {
            0
        } else {
            self.next() % n
        }
    }
    pub fn pick<'a, T>(&mut self, xs: &'a [T]) -> &'a T {
        &xs[self.below(xs.len() as u64) as usize]
    }
    pub fn bytes(&mut self, n: usize) -> Vec<u8> {
        let mut v = Vec::with_capacity(n);
        while v.len() < n {
            let x = self.next().to_le_bytes();
            let k = (n - v.len()).min(8);
            v.extend_from_slice(&x[..k]);
        }
        v
    }
}

pub fn mix(a: u64, b: u64) -> u64 {
    let mut r = Rng::new(a.wrapping_mul(0x1000_0000_01B3).wrapping_add(b));
    r.next()
}

// ---------------------------------------------------------------- hash

/// dependency-free 128-bit content hash (two independent 64-bit FNV/mix lanes).
/// Used only for de-duplication counts, never for equality verdicts.
pub fn hash128(b: &[u8]) -> u128 {
    let mut h1: u64 = 0xcbf2_9ce4_8422_2325;
    let mut h2: u64 = 0x6c62_272e_07bb_0142;
    for &x in b {
        h1 = (h1 ^ x as u64).wrapping_mul(0x0000_0100_0000_01B3);
        h2 = (h2.rotate_left(5) ^ x as u64).wrapping_mul(0x9E37_79B9_7F4A_7C15);
    }
    h1 ^= b.len() as u64;
    h2 = h2.wrapping_add((b.len() as u64).wrapping_mul(0xBF58_476D_1CE4_E5B9));
    h2 ^= h2 >> 29;
    // top bit is kept clear: monitors use it to tag non-output entries in the same set
    (((h1 as u128) << 64) | h2 as u128) & !(1u128 << 127)
}

pub fn hex(b: &[u8]) -> String {
    let mut s = String::with_capacity(b.len() * 2);
    for x in b {
        s.push_str(&format!("{:02x}", x));
    }
    s
}

pub fn unhex(s: &str) -> Vec<u8> {
    let s = s.trim();
    (0..s.len() / 2)
        .map(|i| u8::from_str_radix(&s[2 * i..2 * i + 2], 16).expect("bad hex"))
        .collect()
}

// ---------------------------------------------------------------- configuration

#[derive(Debug, Clone, Copy, PartialEq, Eq, Hash, PartialOrd, Ord)]
pub enum Mk {
    Bitflip,
    Boundary,
    Offbyone,
    Stringlen,
    Character,
    Memoindex,
    Typeconfusion,
}

pub const ALL_MK: [Mk; 7] = [
    Mk::Bitflip,
    Mk::Boundary,
    Mk::Offbyone,
    Mk::Stringlen,
    Mk::Character,
    Mk::Memoindex,
    Mk::Typeconfusion,
];

impl Mk {
    pub fn name(self) -> &'static str {
        match self {
            Mk::Bitflip => "bitflip",
            Mk::Boundary => "boundary",
            Mk::Offbyone => "offbyone",
            Mk::Stringlen => "stringlen",
            Mk::Character => "character",
            Mk::Memoindex => "memoindex",
            Mk::Typeconfusion => "typeconfusion",
        }
    }
    pub fn from_name(s: &str) -> Mk {
        *ALL_MK
            .iter()
            .find(|m| m.name() == s)
            .unwrap_or_else(|| panic!("unknown mutator {}", s))
    }
    pub fn kind(self) -> MutatorKind {
        match self {
            Mk::Bitflip => MutatorKind::Bitflip,
            Mk::Boundary => MutatorKind::Boundary,
            Mk::Offbyone => MutatorKind::Offbyone,
            Mk::Stringlen => MutatorKind::Stringlen,
            Mk::Character => MutatorKind::Character,
            Mk::Memoindex => MutatorKind::Memoindex,
            Mk::Typeconfusion => MutatorKind::Typeconfusion,
        }
    }
}

/// the i-th of the 128 mutator subsets, in canonical order
pub fn subset(bits: u32) -> Vec<Mk> {
    ALL_MK
        .iter()
        .enumerate()
        .filter(|(i, _)| bits & (1 << i) != 0)
        .map(|(_, m)| *m)
        .collect()
}

#[derive(Debug, Clone, PartialEq)]
pub enum Entropy {
    Seed(u64),
    Bytes(Vec<u8>),
}

#[derive(Debug, Clone, PartialEq)]
pub struct Config {
    pub proto: u8,
    pub entropy: Entropy,
    pub min: usize,
    pub max: usize,
    pub mutators: Vec<Mk>,
    /// set through the builder (clamped) unless `raw_rate`
    pub rate: f64,
    /// write the public field directly (out-of-range / NaN rates)
    pub raw_rate: bool,
    /// Some(w): the generator first produces an unrelated, memo-rich pickle (seed w, 150..400
    /// opcodes) and only then the observed one - outputs must not depend on that history
    pub warmup: Option<u64>,
    /// order / style in which the builder methods are called (0 canonical, 1 reversed with
    /// single-item setters, 2 minimal: only non-default settings); the resulting configuration
    /// is the same, so outputs must be too
    pub order: u8,
    /// Some(k): `with_buffer_size(k)` is called as well (documented as a PRNG buffer size)
    pub bufsize: Option<usize>,
    pub unsafe_mut: bool,
    pub ext: bool,
    pub buf: bool,
}

impl Config {
    pub fn default_for(proto: u8, entropy: Entropy) -> Self {
        Config {
            proto,
            entropy,
            min: 60,
            max: 300,
            mutators: vec![],
            rate: 0.1,
            raw_rate: false,
            warmup: None,
            order: 0,
            bufsize: None,
            unsafe_mut: false,
            ext: false,
            buf: false,
        }
    }

    pub fn version(&self) -> Version {
        Version::try_from(self.proto as usize).expect("proto 0..5")
    }

    /// the flag the mutator objects are created with: the generator's own flag, or (order bit 16)
    /// the opposite one - `MutatorKind::create(flag)` and `with_unsafe_mutations` are independent
    /// knobs of the public API
    pub fn mutator_flag(&self) -> bool {
        self.unsafe_mut ^ (self.order & 16 != 0)
    }

    /// `Generator::new(v)`, or (construction styles 3 and 4) `Generator::default()` with the
    /// protocol written through the public `state` field
    fn construct(&self) -> Generator {
        match self.order & 7 {
            3 => {
                let mut g = Generator::default();
                g.state.version = self.version();
                g
            }
            4 => {
                let mut g = Generator::default();
                g.state = Default::default();
                g.state.version = self.version();
                g
            }
            5 | 6 => {
                // built for another protocol, retargeted through the public field before first use
                let other = (self.proto as usize + if self.order & 7 == 5 { 3 } else { 4 }) % 6;
                let mut g = Generator::new(Version::try_from(other).expect("proto"));
                g.state.version = self.version();
                g
            }
            _ => Generator::new(self.version()),
        }
    }

    /// order bit 8: every setter is first called with a DIFFERENT value (the builder methods are
    /// plain "last call wins" setters, so the calls that follow must fully determine the result).
    /// Not combined with the minimal style, which relies on untouched defaults.
    fn construct_with_prelude(&self) -> Generator {
        let g = self.construct();
        if self.order & 8 == 0 || self.order & 7 == 2 {
            return g;
        }
        let mut g = g
            .with_opcode_range(self.min + 7, self.max + 11)
            .with_min_opcodes(3)
            .with_max_opcodes(9)
            .with_mutator(Mk::Bitflip.kind().create(!self.mutator_flag()))
            .with_mutators(vec![Mk::Typeconfusion.kind().create(true)])
            .with_mutators(vec![])
            .with_mutation_rate(if self.rate == 1.0 { 0.0 } else { 1.0 })
            .with_unsafe_mutations(!self.unsafe_mut)
            .with_ext_opcodes(!self.ext)
            .with_buffer_opcodes(!self.buf);
        if let Entropy::Seed(s) = self.entropy {
            g = g.with_seed(!s);
        }
        g
    }

    pub fn build(&self) -> Generator {
        let mk = |m: &Mk| m.kind().create(self.mutator_flag());
        let mut g = match self.order & 7 {
            1 | 4 | 6 => {
                // flags first, single-item setters, range through the two separate methods
                let mut g = self
                    .construct_with_prelude()
                    .with_buffer_opcodes(self.buf)
                    .with_ext_opcodes(self.ext)
                    .with_unsafe_mutations(self.unsafe_mut)
                    .with_mutation_rate(self.rate);
                for m in &self.mutators {
                    g = g.with_mutator(mk(m));
                }
                if let Entropy::Seed(s) = self.entropy {
                    g = g.with_seed(s);
                }
                g.with_max_opcodes(self.max).with_min_opcodes(self.min)
            }
            2 => {
                // only what differs from the defaults is set at all
                let mut g = self.construct();
                if (self.min, self.max) != (60, 300) {
                    g = g.with_opcode_range(self.min, self.max);
                }
                if !self.mutators.is_empty() {
                    g = g.with_mutators(self.mutators.iter().map(mk).collect());
                }
                if self.rate != 0.1 {
                    g = g.with_mutation_rate(self.rate);
                }
                if self.unsafe_mut {
                    g = g.with_unsafe_mutations(true);
                }
                if self.ext {
                    g = g.with_ext_opcodes(true);
                }
                if self.buf {
                    g = g.with_buffer_opcodes(true);
                }
                if let Entropy::Seed(s) = self.entropy {
                    g = g.with_seed(s);
                }
                g
            }
            _ => {
                let mut g = self.construct_with_prelude().with_opcode_range(self.min, self.max);
                if let Entropy::Seed(s) = self.entropy {
                    g = g.with_seed(s);
                }
                if !self.mutators.is_empty() {
                    g = g.with_mutators(self.mutators.iter().map(mk).collect());
                }
                g.with_mutation_rate(self.rate)
                    .with_unsafe_mutations(self.unsafe_mut)
                    .with_ext_opcodes(self.ext)
                    .with_buffer_opcodes(self.buf)
            }
        };
        if self.raw_rate {
            g.mutation_rate = self.rate;
        }
        if let Some(k) = self.bufsize {
            g = g.with_buffer_size(k);
        }
        g
    }

    pub fn to_json(&self) -> Value {
        let rate = if self.rate.is_finite() {
            json!(self.rate)
        } else {
            json!(format!("{}", self.rate))
        };
        json!({
            "proto": self.proto,
            "entropy": match &self.entropy {
                Entropy::Seed(s) => json!({"seed": s}),
                Entropy::Bytes(b) => json!({"bytes_hex": hex(b)}),
            },
            "min": self.min, "max": self.max,
            "mutators": self.mutators.iter().map(|m| m.name()).collect::<Vec<_>>(),
            "rate": rate, "raw_rate": self.raw_rate, "warmup": self.warmup, "order": self.order, "bufsize": self.bufsize,
            "unsafe": self.unsafe_mut, "ext": self.ext, "buf": self.buf,
        })
    }

    pub fn from_json(v: &Value) -> Config {
        let e = &v["entropy"];
        let entropy = if let Some(s) = e.get("seed") {
            Entropy::Seed(s.as_u64().expect("seed"))
        } else {
            Entropy::Bytes(unhex(e["bytes_hex"].as_str().expect("bytes_hex")))
        };
        let rate = match &v["rate"] {
            Value::String(s) => s.parse::<f64>().unwrap_or(f64::NAN),
            x => x.as_f64().unwrap_or(0.1),
        };
        Config {
            proto: v["proto"].as_u64().unwrap_or(3) as u8,
            entropy,
            min: v["min"].as_u64().unwrap_or(60) as usize,
            max: v["max"].as_u64().unwrap_or(300) as usize,
            mutators: v["mutators"]
                .as_array()
                .map(|a| a.iter().map(|m| Mk::from_name(m.as_str().unwrap())).collect())
                .unwrap_or_default(),
            rate,
            raw_rate: v["raw_rate"].as_bool().unwrap_or(false),
            warmup: v.get("warmup").and_then(|w| w.as_u64()),
            order: v.get("order").and_then(|w| w.as_u64()).unwrap_or(0) as u8,
            bufsize: v.get("bufsize").and_then(|w| w.as_u64()).map(|k| k as usize),
            unsafe_mut: v["unsafe"].as_bool().unwrap_or(false),
            ext: v["ext"].as_bool().unwrap_or(false),
            buf: v["buf"].as_bool().unwrap_or(false),
        }
    }

    pub fn short(&self) -> String {
        format!(
            "P{} {} [{},{}] mut={:?}@{} unsafe={} ext={} buf={}{}",
            self.proto,
            match &self.entropy {
                Entropy::Seed(s) => format!("seed={}", s),
                Entropy::Bytes(b) => format!("bytes[{}]", b.len()),
            },
            self.min,
            self.max,
            self.mutators.iter().map(|m| m.name()).collect::<Vec<_>>(),
            self.rate,
            self.unsafe_mut as u8,
            self.ext as u8,
            self.buf as u8,
            if self.warmup.is_some() { " reused-generator" } else { "" }
        )
    }
}

// ---------------------------------------------------------------- case execution

#[derive(Debug, Clone)]
pub enum Outcome {
    Ok(Vec<u8>),
    Err(String),
    Panic(String),
}

pub struct CaseResult {
    pub outcome: Outcome,
    pub events: Vec<Event>,
}

pub fn panic_msg(p: Box<dyn std::any::Any + Send>) -> String {
    if let Some(s) = p.downcast_ref::<&str>() {
        s.to_string()
    } else if let Some(s) = p.downcast_ref::<String>() {
        s.clone()
    } else {
        "<non-string panic payload>".to_string()
    }
}

thread_local! {
    static IN_GENERATION: std::cell::Cell<bool> = const { std::cell::Cell::new(false) };
}

/// silence the default panic printer for panics of the code under test (they are caught and
/// judged); panics of the harness itself are still printed
pub fn quiet_panics() {
    std::panic::set_hook(Box::new(|info| {
        let in_gen = IN_GENERATION.try_with(|c| c.get()).unwrap_or(false);
        if !in_gen {
            eprintln!("pfv harness panic: {}", info);
        }
    }));
}

/// cheap description of the call for the watchdog: a JSON template with `@ENT@` in place of the
/// entropy, plus the raw entropy bytes (hex-encoded only if the call is ever reported)
fn describe(g: &Generator, entropy: &Entropy) -> (String, Vec<u8>) {
    let names: Vec<String> = g.mutators.iter().map(|m| format!("\"{}\"", m.name())).collect();
    let (ent, raw) = match entropy {
        Entropy::Seed(s) => (format!("{{\"seed\":{}}}", g.seed.unwrap_or(*s)), Vec::new()),
        Entropy::Bytes(b) => ("@ENT@".to_string(), b[..b.len().min(16384)].to_vec()),
    };
    let rate = if g.mutation_rate.is_finite() {
        format!("{}", g.mutation_rate)
    } else {
        format!("\"{}\"", g.mutation_rate)
    };
    (
        format!(
            "{{\"proto\":{},\"entropy\":{},\"min\":{},\"max\":{},\"mutators\":[{}],\"rate\":{},\"raw_rate\":true,\"unsafe\":{},\"ext\":{},\"buf\":{}}}",
            g.state.version as u8,
            ent,
            g.min_opcodes,
            g.max_opcodes,
            names.join(","),
            rate,
            g.unsafe_mutations,
            g.allow_ext_opcodes,
            g.allow_buffer_opcodes
        ),
        raw,
    )
}

pub fn gen_once(g: &mut Generator, entropy: &Entropy) -> Outcome {
    let (desc, raw) = describe(g, entropy);
    let _watch = watch::enter(desc, raw, g.min_opcodes.max(g.max_opcodes));
    IN_GENERATION.with(|c| c.set(true));
    let r = catch_unwind(AssertUnwindSafe(|| match entropy {
        Entropy::Seed(_) => g.generate(),
        Entropy::Bytes(b) => g.generate_from_arbitrary(b),
    }));
    IN_GENERATION.with(|c| c.set(false));
    match r {
        Ok(Ok(b)) => Outcome::Ok(b),
        Ok(Err(e)) => Outcome::Err(format!("{}", e)),
        Err(p) => Outcome::Panic(panic_msg(p)),
    }
}

/// fuzzer input (and its opcode count) that makes a plain generator of protocol `proto` keep
/// 12 000 MARKs pending (kind 0) or store 30 000 memo entries (kind 1); steered once per process
pub fn giant_input(proto: u8, kind: usize) -> &'static (Vec<u8>, usize) {
    static GIANT: std::sync::OnceLock<Vec<(Vec<u8>, usize)>> = std::sync::OnceLock::new();
    let all = GIANT.get_or_init(|| {
        // steering means generating; done in a throw-away process so that the process whose
        // generations are judged performs no hidden generations of its own (process-wide state
        // would otherwise be initialised by this set-up, in its order, in every process alike)
        if std::env::var("PFV_GIANT_INLINE").is_err() {
            if let Ok(exe) = std::env::current_exe() {
                // the helper has no work-bound watchdog of its own: if it does not finish within two
                // minutes (a generation that never returns) it is killed and the inputs are steered
                // here instead, where the watchdog turns a stuck generation into a verdict
                let tmp = std::env::temp_dir().join(format!("pfv-giant-{}.txt", std::process::id()));
                if let Ok(f) = std::fs::File::create(&tmp) {
                    if let Ok(mut ch) = std::process::Command::new(exe).arg("giant").env("PFV_GIANT_INLINE", "1").stdout(f).stderr(std::process::Stdio::null()).spawn() {
                        let t0 = std::time::Instant::now();
                        let status = loop {
                            match ch.try_wait() {
                                Ok(Some(s)) => break Some(s),
                                Ok(None) if t0.elapsed() > std::time::Duration::from_secs(120) => {
                                    let _ = ch.kill();
                                    let _ = ch.wait();
                                    break None;
                                }
                                Ok(None) => std::thread::sleep(std::time::Duration::from_millis(20)),
                                Err(_) => break None,
                            }
                        };
                        let text = std::fs::read_to_string(&tmp).unwrap_or_default();
                        let _ = std::fs::remove_file(&tmp);
                        let v: Vec<(Vec<u8>, usize)> = text
                            .lines()
                            .filter_map(|l| {
                                let (a, b) = l.split_once(' ')?;
                                Some((unhex(b), a.parse().ok()?))
                            })
                            .collect();
                        if matches!(status, Some(s) if s.success()) && v.len() == 12 {
                            return v;
                        }
                    }
                }
            }
        }
        let mut v = Vec::new();
        for p in 0..6u8 {
            let base = Config::default_for(p, Entropy::Bytes(vec![]));
            let memo_op = match p {
                0 => b'p',
                1..=3 => b'r',
                _ => 0x94,
            };
            // 12 000 pending MARKs (they end up as 12 000 nested tuples, which is as deep as the
            // recursive drop can go on a 2 MiB stack with room to spare) / 30 000 memo entries
            for (x, y, steps) in [(b'(', b'N', 12_000usize), (memo_op, b'N', 30_000usize)] {
                let st = crate::workload::steer_long(&base, steps, false, 48, crate::workload::greedy_policy(x, y));
                let bytes = match st.cfg.entropy {
                    Entropy::Bytes(b) => b,
                    _ => Vec::new(),
                };
                v.push((bytes, steps));
            }
        }
        v
    });
    &all[(proto as usize % 6) * 2 + kind % 2]
}

/// run one fresh-generator case; `trace` = Some(cfg) records the hook event log
pub fn run_case(cfg: &Config, trace: Option<verif::Config>) -> CaseResult {
    let mut g = cfg.build();
    if let Some(w) = cfg.warmup {
        // reused generator: an earlier, unrelated generation on the same instance, followed by one
        // of several legal ways of getting the object ready for the observed call. On a correct
        // tree none of this can matter: every generation starts from a reset machine and reads the
        // configuration fields afresh.
        let (m0, m1, s0) = (g.min_opcodes, g.max_opcodes, g.seed);
        let (v0, e0, b0) = (g.state.version, g.allow_ext_opcodes, g.allow_buffer_opcodes);
        // one warm-up in 16 is a large pickle (buffers and tables grown well past their defaults)
        // ... and one in 64 a very large one (output buffer beyond 64 KiB)
        let big = w % 16 == 0;
        let huge = w % 64 == 0;
        let style = (w >> 6) % 5;
        if w % 32 == 1 {
            // ... and one in 32 is preceded by a giant one: 12 000 MARKs pending at once, or 30 000
            // memo entries (tables far beyond any size-based threshold, output of 60-200 KB). The
            // input was steered on a plain generator, so the mutators and opt-in flags are set
            // aside through the public fields for that call and put back afterwards.
            let (inp, steps) = giant_input(cfg.proto, ((w >> 5) % 2) as usize);
            let muts = std::mem::take(&mut g.mutators);
            let (u0, r0) = (g.unsafe_mutations, g.mutation_rate);
            g.unsafe_mutations = false;
            g.allow_ext_opcodes = false;
            g.allow_buffer_opcodes = false;
            g.min_opcodes = *steps;
            g.max_opcodes = *steps;
            let _ = gen_once(&mut g, &Entropy::Bytes(inp.clone()));
            g.mutators = muts;
            g.unsafe_mutations = u0;
            g.mutation_rate = r0;
            g.allow_ext_opcodes = e0;
            g.allow_buffer_opcodes = b0;
        }
        g.min_opcodes = if huge { 9000 } else if big { 2500 } else { 150 };
        g.max_opcodes = if huge { 9500 } else if big { 3000 } else { 400 };
        g.seed = Some(w);
        if style == 2 {
            // the earlier pickle was generated for another protocol (public field `state.version`)
            let other = ((cfg.proto as u64 + 1 + (w >> 10) % 5) % 6) as usize;
            g.state.version = Version::try_from(other).expect("proto");
        }
        if style == 3 {
            // ... or with the opt-in opcodes switched the other way (public fields)
            g.allow_ext_opcodes = !e0;
            g.allow_buffer_opcodes = !b0;
        }
        // after a giant generation the ordinary warm-up is skipped half of the time, so that the
        // judged call is the very next one (a one-shot effect of the giant call would otherwise
        // always be absorbed by the warm-up in between)
        if !(w % 32 == 1 && (w >> 7) % 2 == 0) {
            let _ = gen_once(&mut g, &Entropy::Seed(w));
        }
        g.min_opcodes = m0;
        g.max_opcodes = m1;
        g.seed = s0;
        // only what this warm-up itself wrote is written back (writing the protocol back
        // unconditionally would repair a generator that lost it on the way)
        if style == 2 {
            g.state.version = v0;
        }
        if style == 3 {
            g.allow_ext_opcodes = e0;
            g.allow_buffer_opcodes = b0;
        }
        match style {
            1 => {
                // the caller took the output buffer instead of copying it
                let _taken = std::mem::take(&mut g.output);
            }
            3 => g.output.clear(),
            4 => g.reset(),
            _ => {}
        }
    }
    if let Some(t) = trace {
        verif::start(t);
    }
    let outcome = gen_once(&mut g, &cfg.entropy);
    let events = if trace.is_some() { verif::take() } else { Vec::new() };
    drop(g);
    CaseResult { outcome, events }
}

// ---------------------------------------------------------------- parallel driver

pub fn n_threads() -> usize {
    std::env::var("VERIF_THREADS")
        .ok()
        .and_then(|s| s.parse().ok())
        .unwrap_or_else(|| {
            std::thread::available_parallelism()
                .map(|n| n.get())
                .unwrap_or(8)
                .min(16)
        })
}

/// run `f(i, &mut acc)` for i in 0..n on all cores; accumulators merged by `merge`.
pub fn par_run<A, F, M>(n: usize, make: impl Fn() -> A + Sync, f: F, merge: M) -> A
where
    A: Send,
    F: Fn(usize, &mut A) + Sync,
    M: FnMut(&mut A, A),
{
    // 256 MiB of (lazily committed) stack per worker: the monitors' own workloads nest tens of
    // thousands deep (giant warm-ups, long pickles), and debug / sanitizer builds have large
    // frames; an overflow would kill the monitor instead of producing a verdict. Stack use is
    // judged where C09 bounds it: in child processes on a 2 MiB thread.
    par_run_stack(256 << 20, n, make, f, merge)
}

/// `par_run` on worker threads with `stack_bytes` of stack (0 = the 2 MiB default). Used for
/// workloads whose nesting depth goes beyond what any property bounds (recursive drop of a
/// 40 000-deep tuple chain needs more than 2 MiB): an overflow there would kill the monitor.
pub fn par_run_stack<A, F, M>(stack_bytes: usize, n: usize, make: impl Fn() -> A + Sync, f: F, mut merge: M) -> A
where
    A: Send,
    F: Fn(usize, &mut A) + Sync,
    M: FnMut(&mut A, A),
{
    let next = AtomicUsize::new(0);
    let threads = n_threads().min(n.max(1));
    let results: Mutex<Vec<A>> = Mutex::new(Vec::new());
    std::thread::scope(|s| {
        for _ in 0..threads {
            let mut b = std::thread::Builder::new();
            if stack_bytes > 0 {
                b = b.stack_size(stack_bytes);
            }
            let _ = b.spawn_scoped(s, || {
                let mut acc = make();
                loop {
                    let i = next.fetch_add(1, Ordering::Relaxed);
                    if i >= n {
                        break;
                    }
                    f(i, &mut acc);
                }
                results.lock().unwrap().push(acc);
            })
            .expect("spawn worker thread");
        }
    });
    let mut all = results.into_inner().unwrap();
    let mut first = all.pop().unwrap_or_else(&make);
    for a in all {
        merge(&mut first, a);
    }
    first
}

// ---------------------------------------------------------------- violations / evidence

#[derive(Debug, Clone)]
pub struct Violation {
    pub property: String,
    /// stable signature for known-finding matching
    pub signature: String,
    pub message: String,
    pub replay: Value,
}

pub const SET_CAP: usize = 2_000_000;

/// per-check accumulator shared by all monitors
pub struct Acc {
    pub evaluations: u64,
    pub distinct: HashSet<u128>,
    pub nontrivial: HashSet<u128>,
    pub samples: Vec<Value>,
    pub violations: Vec<Violation>,
    pub counters: std::collections::BTreeMap<String, u64>,
    pub inconclusive: Vec<String>,
    /// pickles queued for the CPython cross-check: (bytes, o2_accepts, n_ops)
    pub o3: Vec<(Vec<u8>, bool, u32)>,
    pub max_violations: usize,
    /// per-thread cap on sampled (unflagged) pickles queued for the CPython cross-check
    pub o3_cap: usize,
}

impl Default for Acc {
    fn default() -> Self {
        Self::new()
    }
}

impl Acc {
    pub fn new() -> Self {
        Acc {
            evaluations: 0,
            distinct: HashSet::new(),
            nontrivial: HashSet::new(),
            samples: Vec::new(),
            violations: Vec::new(),
            counters: Default::default(),
            inconclusive: Vec::new(),
            o3: Vec::new(),
            max_violations: 50,
            o3_cap: if std::env::var("PFV_TIER").map(|t| t == "thorough").unwrap_or(false) { 12_000 } else { 1_200 },
        }
    }
    /// distinct-output bookkeeping is capped (conservative undercount beyond the cap)
    pub fn ins_distinct(&mut self, h: u128) {
        if self.distinct.len() < SET_CAP {
            self.distinct.insert(h);
        }
    }
    pub fn ins_nontrivial(&mut self, h: u128) {
        if self.nontrivial.len() < SET_CAP {
            self.nontrivial.insert(h);
        }
    }
    pub fn count(&mut self, key: &str, n: u64) {
        *self.counters.entry(key.to_string()).or_insert(0) += n;
    }
    pub fn max(&mut self, key: &str, n: u64) {
        let e = self.counters.entry(key.to_string()).or_insert(0);
        if n > *e {
            *e = n;
        }
    }
    pub fn get(&self, key: &str) -> u64 {
        self.counters.get(key).copied().unwrap_or(0)
    }
    pub fn sample(&mut self, v: Value) {
        if self.samples.len() < 6 {
            self.samples.push(v);
        }
    }
    pub fn violate(&mut self, v: Violation) {
        if self.violations.len() < self.max_violations {
            self.violations.push(v);
        } else {
            self.count("violations_dropped_over_cap", 1);
        }
    }
    pub fn merge(&mut self, o: Acc) {
        self.evaluations += o.evaluations;
        for h in o.distinct {
            self.ins_distinct(h);
        }
        for h in o.nontrivial {
            self.ins_nontrivial(h);
        }
        for s in o.samples {
            self.sample(s);
        }
        for v in o.violations {
            self.violate(v);
        }
        for (k, n) in o.counters {
            if k.starts_with("max_") {
                self.max(&k, n);
            } else {
                self.count(&k, n);
            }
        }
        self.inconclusive.extend(o.inconclusive);
        self.o3.extend(o.o3);
    }
}

pub fn sample_of(cfg: &Config, bytes: &[u8], ops: &[&str]) -> Value {
    json!({
        "config": cfg.to_json(),
        "len": bytes.len(),
        "head_hex": hex(&bytes[..bytes.len().min(48)]),
        "opcodes_head": ops.iter().take(24).collect::<Vec<_>>(),
        "n_opcodes": ops.len(),
    })
}

// ---------------------------------------------------------------- work-bound watchdog

/// Converts a generation that never returns into a verdict instead of a hung check.
///
/// Every generation call registers itself (thread, description, CPU clock of the thread at
/// entry). A watchdog thread polls: a call that has consumed more CPU time *on its own
/// thread* (CLOCK_THREAD_CPUTIME_ID, independent of machine load) than the work bound
/// `max(20 s, 2e-6 s * T^2)` (T = opcode budget; >= 60x the slowest generation observed on the
/// repaired tree) is reported: as a VIOLATION of C09 ("never loops forever", restated as a
/// bound on work) by the C09 check, as INCONCLUSIVE by every other check. The result file is
/// written and the process exits, because a running generation cannot be interrupted.
pub mod watch {
    use std::sync::{Arc, Mutex, OnceLock};
    use std::time::{Duration, Instant};

    pub struct Slot {
        pub thread: libc::pthread_t,
        pub active: bool,
        pub desc: String,
        pub raw: Vec<u8>,
        pub budget_s: f64,
        pub cpu_start: f64,
        pub wall_start: Instant,
    }

    struct Ctx {
        property: String,
        tier: String,
        seed: u64,
        outdir: String,
    }

    static SLOTS: Mutex<Vec<Arc<Mutex<Slot>>>> = Mutex::new(Vec::new());
    static CTX: OnceLock<Ctx> = OnceLock::new();

    thread_local! {
        static MINE: Arc<Mutex<Slot>> = {
            let s = Arc::new(Mutex::new(Slot {
                thread: unsafe { libc::pthread_self() },
                active: false,
                desc: String::new(),
                raw: Vec::new(),
                budget_s: 0.0,
                cpu_start: 0.0,
                wall_start: Instant::now(),
            }));
            SLOTS.lock().unwrap().push(s.clone());
            s
        };
    }

    fn clock(id: libc::clockid_t) -> f64 {
        let mut ts = libc::timespec { tv_sec: 0, tv_nsec: 0 };
        unsafe {
            libc::clock_gettime(id, &mut ts);
        }
        ts.tv_sec as f64 + ts.tv_nsec as f64 * 1e-9
    }

    pub fn work_bound(opcode_budget: usize) -> f64 {
        let t = opcode_budget as f64;
        (2e-6 * t * t).max(20.0)
    }

    pub struct Guard;

    impl Drop for Guard {
        fn drop(&mut self) {
            let _ = MINE.try_with(|m| {
                let mut s = m.lock().unwrap();
                s.active = false;
                // free the description now: nothing of the monitor may stay allocated across
                // the leak monitor's measurement window
                s.desc = String::new();
                s.raw = Vec::new();
            });
        }
    }

    /// register the generation call that is about to start on this thread
    pub fn enter(desc: String, raw: Vec<u8>, opcode_budget: usize) -> Guard {
        MINE.with(|m| {
            let mut s = m.lock().unwrap();
            s.desc = desc;
            s.raw = raw;
            s.budget_s = work_bound(opcode_budget);
            s.cpu_start = clock(libc::CLOCK_THREAD_CPUTIME_ID);
            s.wall_start = Instant::now();
            s.active = true;
        });
        Guard
    }

    /// start the watchdog thread (once per process)
    pub fn init(property: &str, tier: &str, seed: u64, outdir: &str) {
        if CTX
            .set(Ctx {
                property: property.to_string(),
                tier: tier.to_string(),
                seed,
                outdir: outdir.to_string(),
            })
            .is_err()
        {
            return;
        }
        std::thread::spawn(|| loop {
            std::thread::sleep(Duration::from_millis(1500));
            let slots: Vec<Arc<Mutex<Slot>>> = SLOTS.lock().unwrap().clone();
            for s in slots {
                let (thread, desc, budget, cpu_start, wall) = {
                    let s = s.lock().unwrap();
                    if !s.active || s.wall_start.elapsed().as_secs_f64() < s.budget_s.min(20.0) {
                        continue;
                    }
                    let hexed: String = s.raw.iter().map(|b| format!("{:02x}", b)).collect();
                    let d = s.desc.replace("@ENT@", &format!("{{\"bytes_hex\":\"{}\"}}", hexed));
                    (s.thread, d, s.budget_s, s.cpu_start, s.wall_start.elapsed().as_secs_f64())
                };
                let mut cid: libc::clockid_t = 0;
                if unsafe { libc::pthread_getcpuclockid(thread, &mut cid) } != 0 {
                    continue;
                }
                let used = clock(cid) - cpu_start;
                if used > budget {
                    // still the same call? (re-check under the lock)
                    if !s.lock().unwrap().active {
                        continue;
                    }
                    report(&desc, used, budget, wall);
                }
            }
        });
    }

    fn report(desc: &str, used: f64, budget: f64, wall: f64) -> ! {
        let ctx = CTX.get().expect("watch ctx");
        let msg = format!(
            "a generation call did not return: it has consumed {:.0} s of CPU on its own thread ({:.0} s wall), work bound {:.0} s; case: {}",
            used, wall, budget, desc
        );
        let is_c09 = ctx.property == "C09";
        let replay_path = format!("{}/replay/{}-{}-stuck.json", ctx.outdir, ctx.property, ctx.seed);
        std::fs::create_dir_all(format!("{}/replay", ctx.outdir)).ok();
        let cfg_json: serde_json::Value = serde_json::from_str(desc).unwrap_or(serde_json::Value::String(desc.to_string()));
        let replay = serde_json::json!({"kind": "stuck", "property": ctx.property, "message": msg, "config": cfg_json,
            "cpu_s": used, "work_bound_s": budget, "signature": "C09:work_bound:generation_did_not_return"});
        std::fs::write(&replay_path, serde_json::to_string_pretty(&replay).unwrap()).ok();
        let mut result = serde_json::json!({
            "property_id": ctx.property, "tier": ctx.tier, "seed": ctx.seed, "level": "exploration",
            "coverage": {"evaluations": 1, "distinct_nontrivial": 0,
                "rule": "run aborted by the work-bound watchdog: one generation call exceeded its CPU work bound",
                "samples": [replay.clone()]},
            "assumptions": [], "wall_s": wall, "violations": 0, "violations_detail": [], "inconclusive": [],
            "o3_file": serde_json::Value::Null, "o3_queued": 0,
        });
        if is_c09 {
            result["violations"] = serde_json::json!(1);
            result["violations_detail"] = serde_json::json!([{"signature": "C09:work_bound:generation_did_not_return", "message": msg, "replay": replay_path}]);
        } else {
            result["inconclusive"] = serde_json::json!([format!("watchdog: {}", msg)]);
        }
        std::fs::write(
            format!("{}/result-{}.json", ctx.outdir, ctx.property),
            serde_json::to_string_pretty(&result).unwrap(),
        )
        .ok();
        eprintln!("pfv watchdog: {}", msg);
        std::process::exit(if is_c09 { 1 } else { 2 });
    }
}

// ---------------------------------------------------------------- CLI helper

/// run the built CLI in batch mode and return the bytes of every file it wrote
pub fn cli_batch(extra: &[String], samples: usize, env: &[(&str, &str)]) -> Result<Vec<Vec<u8>>, String> {
    use std::sync::atomic::{AtomicUsize, Ordering};
    static N: AtomicUsize = AtomicUsize::new(0);
    let cli = std::env::var("PFV_CLI").map_err(|_| "PFV_CLI not set".to_string())?;
    let d = std::env::temp_dir().join(format!("pfv-cli-{}-{}", std::process::id(), N.fetch_add(1, Ordering::Relaxed)));
    let _ = std::fs::remove_dir_all(&d);
    // every other batch goes to a directory that already holds older, much longer sample files
    // (a re-run into the same directory): what the tool writes must replace them completely
    if d.to_string_lossy().as_bytes().last().map_or(false, |c| c % 2 == 1) {
        let _ = std::fs::create_dir_all(&d);
        let junk: Vec<u8> = (0..200_000u32).map(|k| [0x4e, 0x30, 0x28, 0x2e, 0x00, 0x95][k as usize % 6]).collect();
        for k in 0..samples {
            let _ = std::fs::write(d.join(format!("{}.pkl", k)), &junk);
        }
    }
    let mut cmd = std::process::Command::new(&cli);
    cmd.arg("--dir").arg(&d).arg("--samples").arg(samples.to_string()).args(extra);
    for (k, v) in env {
        cmd.env(k, v);
    }
    let out = cmd.output().map_err(|e| format!("spawn: {}", e))?;
    let mut files = Vec::new();
    if let Ok(rd) = std::fs::read_dir(&d) {
        for e in rd.flatten() {
            files.push(std::fs::read(e.path()).unwrap_or_default());
        }
    }
    let _ = std::fs::remove_dir_all(&d);
    if !out.status.success() {
        return Err(format!("exit {:?}: {}", out.status.code(), String::from_utf8_lossy(&out.stderr).trim()));
    }
    Ok(files)
}

/// run scripts/action-run.sh with the built CLI first on PATH; returns the files of INPUT_OUTPUT_DIR
pub fn action_batch(inputs: &[(&str, String)], samples: usize) -> Result<Vec<Vec<u8>>, String> {
    use std::sync::atomic::{AtomicUsize, Ordering};
    static N: AtomicUsize = AtomicUsize::new(0);
    let cli = std::env::var("PFV_CLI").map_err(|_| "PFV_CLI not set".to_string())?;
    let repo = std::env::var("VERIF_REPO").unwrap_or_else(|_| "/repo".to_string());
    let base = std::env::temp_dir().join(format!("pfv-act-{}-{}", std::process::id(), N.fetch_add(1, Ordering::Relaxed)));
    let _ = std::fs::remove_dir_all(&base);
    let bin = base.join("bin");
    std::fs::create_dir_all(&bin).map_err(|e| e.to_string())?;
    std::os::unix::fs::symlink(&cli, bin.join("pickle-fuzzer")).map_err(|e| e.to_string())?;
    let d = base.join("out");
    let mut cmd = std::process::Command::new("bash");
    cmd.arg(format!("{}/scripts/action-run.sh", repo));
    for (k, _) in std::env::vars() {
        if k.starts_with("INPUT_") {
            cmd.env_remove(k);
        }
    }
    let path = format!("{}:{}", bin.display(), std::env::var("PATH").unwrap_or_default());
    cmd.env("PATH", path)
        .env("INPUT_OUTPUT_DIR", &d)
        .env("INPUT_SAMPLES", samples.to_string());
    for (k, v) in inputs {
        cmd.env(k, v);
    }
    let out = cmd.output().map_err(|e| format!("spawn: {}", e))?;
    let mut files = Vec::new();
    if let Ok(rd) = std::fs::read_dir(&d) {
        for e in rd.flatten() {
            files.push(std::fs::read(e.path()).unwrap_or_default());
        }
    }
    let _ = std::fs::remove_dir_all(&base);
    if !out.status.success() {
        return Err(format!("exit {:?}: {}", out.status.code(), String::from_utf8_lossy(&out.stderr).trim()));
    }
    Ok(files)
}
