//! Direct-call monitors (W10): C16 mutator contracts, C18 entropy adapters,
//! and the direct-call half of C15 (rate gate of every mutator method).

use std::panic::{catch_unwind, AssertUnwindSafe};

use arbitrary::Unstructured;
use pickle_fuzzer::mutators::{
    BitFlipMutator, BoundaryMutator, CharacterMutator, MemoIndexMutator, OffByOneMutator, StringLengthMutator,
    TypeConfusionMutator,
};
use pickle_fuzzer::verif::{self, Event, Phase};
use pickle_fuzzer::{EmissionSnapshot, EntropySource, GenerationSource, Mutator};
use rand::SeedableRng;
use rand_chacha::ChaCha8Rng;
use serde_json::json;

use crate::common::*;
use crate::lexer::{lex_prefix, row_by_code};
use crate::workload::HOSTILE_DOUBLES;
use crate::CheckOutput;

/// entropy state for a direct call
#[derive(Debug, Clone)]
pub enum Ent {
    Prng(u64),
    Bytes(Vec<u8>),
}

impl Ent {
    fn to_json(&self) -> serde_json::Value {
        match self {
            Ent::Prng(s) => json!({"prng_seed": s}),
            Ent::Bytes(b) => json!({"bytes_hex": hex(b)}),
        }
    }
    fn mode(&self) -> &'static str {
        match self {
            Ent::Prng(_) => "prng",
            Ent::Bytes(_) => "bytes",
        }
    }
}

/// run `f` with a freshly built source; returns Err(panic message) on panic
pub fn with_source<T>(e: &Ent, f: impl FnOnce(&mut GenerationSource) -> T) -> Result<T, String> {
    let r = catch_unwind(AssertUnwindSafe(|| match e {
        Ent::Prng(s) => {
            let mut rng = ChaCha8Rng::seed_from_u64(*s);
            let mut src = GenerationSource::Rand(&mut rng);
            f(&mut src)
        }
        Ent::Bytes(b) => {
            let mut u = Unstructured::new(b);
            let mut src = GenerationSource::Arbitrary(&mut u);
            f(&mut src)
        }
    }));
    r.map_err(panic_msg)
}

fn entropy_grid(rng: &mut Rng, n_random: usize) -> Vec<Ent> {
    let mut v = vec![Ent::Bytes(vec![])];
    for len in 1..=16usize {
        v.push(Ent::Bytes(vec![0u8; len]));
        v.push(Ent::Bytes(vec![0xFF; len]));
        v.push(Ent::Bytes(rng.bytes(len)));
    }
    for d in HOSTILE_DOUBLES {
        // leading double (what the rate gate reads), then a few bytes / nothing
        let mut b = d.to_le_bytes().to_vec();
        v.push(Ent::Bytes(b.clone()));
        b.extend(rng.bytes(24));
        v.push(Ent::Bytes(b));
        let mut c = d.to_le_bytes().to_vec();
        c.extend(vec![0u8; 3]);
        v.push(Ent::Bytes(c));
    }
    // gate double 0.0, then every value of the first byte the mutation itself draws
    for a in 0..=255u8 {
        let mut b = vec![0u8; 8];
        b.push(a);
        b.extend(rng.bytes(7));
        v.push(Ent::Bytes(b));
    }
    for _ in 0..n_random {
        let n = 8 + rng.below(40) as usize;
        v.push(Ent::Bytes(rng.bytes(n)));
    }
    for _ in 0..n_random {
        v.push(Ent::Prng(rng.next()));
    }
    v.push(Ent::Prng(0));
    v.push(Ent::Prng(42));
    v.push(Ent::Prng(u64::MAX));
    v
}

fn mutator_objs(unsafe_mode: bool) -> Vec<(Mk, Box<dyn Mutator>)> {
    vec![
        (Mk::Bitflip, Box::new(BitFlipMutator) as Box<dyn Mutator>),
        (Mk::Boundary, Box::new(BoundaryMutator)),
        (Mk::Offbyone, Box::new(OffByOneMutator)),
        (Mk::Stringlen, Box::new(StringLengthMutator)),
        (Mk::Character, Box::new(CharacterMutator)),
        (Mk::Memoindex, Box::new(MemoIndexMutator::new(unsafe_mode))),
        (Mk::Typeconfusion, Box::new(TypeConfusionMutator::new(unsafe_mode))),
    ]
}

fn violation(prop: &str, sig: String, msg: String, witness: serde_json::Value) -> Violation {
    Violation {
        property: prop.into(),
        signature: sig,
        message: msg.clone(),
        replay: json!({"kind": "direct", "property": prop, "message": msg, "witness": witness}),
    }
}

// ================================================================ C15 direct

/// which value kinds a mutator is documented to handle
fn handles(m: Mk, what: &str, empty: bool) -> bool {
    match (m, what) {
        (Mk::Bitflip, "int" | "long") => true,
        (Mk::Boundary, "int" | "long" | "float") => true,
        (Mk::Offbyone, "int" | "long" | "memo") => true,
        (Mk::Stringlen, "string" | "bytes") => true,
        (Mk::Character, "string" | "bytes") => !empty,
        (Mk::Memoindex, "memo") => true,
        _ => false,
    }
}

/// call one value method of `m`; returns (method, fired, applicable). `which` selects the method and
/// the value (ordinary values and the ends of every range, where wrap-around / saturation happen)
fn call_all(m: &dyn Mutator, mk: Mk, src: &mut GenerationSource, rate: f64, which: usize) -> (&'static str, bool, bool) {
    const INTS: [i32; 5] = [12345, i32::MAX, i32::MIN, 0, -1];
    const LONGS: [i64; 5] = [-9_876_543_210, i64::MAX, i64::MIN, 0, -1];
    const FLOATS: [f64; 4] = [2.5, f64::MAX, f64::NAN, f64::NEG_INFINITY];
    const MEMOS: [usize; 4] = [7, 0, usize::MAX, 255];
    match which {
        0..=4 => ("int", m.mutate_int(INTS[which], src, rate).is_some(), handles(mk, "int", false)),
        5..=9 => ("long", m.mutate_long(LONGS[which - 5], src, rate).is_some(), handles(mk, "long", false)),
        10..=13 => ("float", m.mutate_float(FLOATS[which - 10], src, rate).is_some(), handles(mk, "float", false)),
        14 => ("string", m.mutate_string("hello wörld".to_string(), src, rate).is_some(), handles(mk, "string", false)),
        15 => ("string_empty", m.mutate_string(String::new(), src, rate).is_some(), handles(mk, "string", true)),
        16 => ("string", m.mutate_string("x".to_string(), src, rate).is_some(), handles(mk, "string", false)),
        17 => ("bytes", m.mutate_bytes(vec![1, 2, 3, 250], src, rate).is_some(), handles(mk, "bytes", false)),
        18 => ("bytes_empty", m.mutate_bytes(vec![], src, rate).is_some(), handles(mk, "bytes", true)),
        19 => ("bytes", m.mutate_bytes(vec![0], src, rate).is_some(), handles(mk, "bytes", false)),
        _ => ("memo", m.mutate_memo_index(MEMOS[(which - 20) % 4], src, rate).is_some(), handles(mk, "memo", false)),
    }
}

/// number of `which` values understood by `call_all`
const N_CALLS: usize = 24;

pub fn c15_direct(thorough: bool, seed: u64, acc: &mut Acc) {
    let mut rng = Rng::new(seed ^ 0xD15EC7);
    let ents = entropy_grid(&mut rng, if thorough { 4000 } else { 300 });
    for unsafe_mode in [false, true] {
        for (mk, m) in mutator_objs(unsafe_mode) {
            for e in &ents {
                for which in 0..N_CALLS {
                    for rate in [0.0f64, 1.0f64] {
                        acc.evaluations += 1;
                        let r = with_source(e, |src| call_all(m.as_ref(), mk, src, rate, which));
                        let (method, fired, applicable) = match r {
                            Ok(x) => x,
                            Err(p) => {
                                acc.violate(violation(
                                    "C15",
                                    format!("C15:direct:panic:{}", mk.name()),
                                    format!("{} panicked in a direct call: {}", mk.name(), p),
                                    json!({"mutator": mk.name(), "entropy": e.to_json(), "rate": rate, "method": which}),
                                ));
                                continue;
                            }
                        };
                        acc.count("direct_calls", 1);
                        acc.ins_nontrivial(hash128(format!("{}{}{:?}{}{}", mk.name(), method, e, rate, unsafe_mode).as_bytes()));
                        if rate == 0.0 && fired {
                            acc.violate(violation(
                                "C15",
                                format!("C15:direct:rate0_fired:{}:{}:{}", mk.name(), method, e.mode()),
                                format!("rate 0.0: {}.mutate_{} returned a mutation (entropy {:?})", mk.name(), method, e),
                                json!({"mutator": mk.name(), "method": method, "entropy": e.to_json(), "rate": 0.0, "unsafe_mode": unsafe_mode}),
                            ));
                        }
                        if rate == 1.0 && applicable && !fired {
                            acc.violate(violation(
                                "C15",
                                format!("C15:direct:rate1_silent:{}:{}:{}", mk.name(), method, e.mode()),
                                format!("rate 1.0: {}.mutate_{} returned None although applicable (entropy {:?})", mk.name(), method, e),
                                json!({"mutator": mk.name(), "method": method, "entropy": e.to_json(), "rate": 1.0, "unsafe_mode": unsafe_mode}),
                            ));
                        }
                        if rate == 1.0 && applicable && fired {
                            acc.count("direct_rate1_fired", 1);
                        }
                        if rate == 0.0 && !fired {
                            acc.count("direct_rate0_silent", 1);
                        }
                    }
                }
            }
        }
    }
    // post_process (TypeConfusion, unsafe): rate 0 never rewrites, rate 1 always rewrites a value opcode
    let tc = TypeConfusionMutator::new(true);
    for e in &ents {
        for rate in [0.0f64, 1.0] {
            let snap = EmissionSnapshot {
                stack_depth: 0,
                output_len: 2,
                memo_size: 0,
                stack_delta: Vec::new(),
                output_delta: vec![0x4b, 0x07],
                memo_delta: Vec::new(),
            };
            let mut out = vec![0x80u8, 0x03, 0x4b, 0x07];
            let before = out.clone();
            acc.evaluations += 1;
            let r = with_source(e, |src| tc.post_process(&snap, &mut out, src, rate));
            match r {
                Err(p) => acc.violate(violation(
                    "C15",
                    "C15:direct:panic:typeconfusion".into(),
                    format!("typeconfusion.post_process panicked: {}", p),
                    json!({"entropy": e.to_json(), "rate": rate}),
                )),
                Ok(fired) => {
                    let changed = out != before;
                    if rate == 0.0 && (fired || changed) {
                        acc.violate(violation(
                            "C15",
                            format!("C15:direct:rate0_rewrite:typeconfusion:{}", e.mode()),
                            format!("rate 0.0: typeconfusion.post_process rewrote the output (entropy {:?})", e),
                            json!({"entropy": e.to_json(), "rate": 0.0}),
                        ));
                    }
                    if rate == 1.0 && !(fired && changed) {
                        acc.violate(violation(
                            "C15",
                            format!("C15:direct:rate1_no_rewrite:typeconfusion:{}", e.mode()),
                            format!("rate 1.0: typeconfusion.post_process (unsafe) left a BININT1 emission untouched (entropy {:?})", e),
                            json!({"entropy": e.to_json(), "rate": 1.0}),
                        ));
                    }
                }
            }
        }
    }
}

// ================================================================ C16

fn int_grid(rng: &mut Rng, n_random: usize) -> Vec<i64> {
    let mut v: Vec<i64> = vec![0, 1, -1, 2, -2, i32::MAX as i64, i32::MIN as i64, i64::MAX, i64::MIN, i32::MAX as i64 + 1, i32::MIN as i64 - 1];
    for k in 0..63 {
        let p = 1i64 << k;
        v.extend_from_slice(&[p, p - 1, p.wrapping_add(1), -p, (-p).wrapping_add(1), (-p).wrapping_sub(1)]);
    }
    for _ in 0..n_random {
        v.push(rng.next() as i64);
        v.push((rng.next() as i32) as i64);
    }
    v
}

fn string_grid(rng: &mut Rng, n_random: usize) -> Vec<String> {
    let mut v: Vec<String> = vec![
        String::new(),
        "a".into(),
        "ab".into(),
        "'".into(),
        "\\".into(),
        "\n".into(),
        "é".into(),
        "日本".into(),
        "a😀b".into(),
        "😀".into(),
        "\u{0}".into(),
        "x".repeat(64),
        "é".repeat(64),
    ];
    let alphabet: Vec<char> = "abcXYZ019 '\"\\\n\téü日😀\u{7f}\u{80}".chars().collect();
    for _ in 0..n_random {
        let n = rng.below(65) as usize;
        v.push((0..n).map(|_| *rng.pick(&alphabet)).collect());
    }
    v
}

fn bytes_grid(rng: &mut Rng, n_random: usize) -> Vec<Vec<u8>> {
    let mut v: Vec<Vec<u8>> = vec![vec![], vec![0], vec![255], vec![0, 255], vec![b'\''; 3], vec![7; 64]];
    for _ in 0..n_random {
        let n = rng.below(65) as usize;
        v.push(rng.bytes(n));
    }
    v
}

const INT_BOUNDS: [i32; 5] = [0, -1, 1, i32::MAX, i32::MIN];
const LONG_BOUNDS: [i64; 5] = [0, -1, 1, i64::MAX, i64::MIN];

fn float_is_boundary(f: f64) -> bool {
    f.is_nan() || [0.0, -1.0, 1.0, f64::MAX, f64::MIN, f64::INFINITY, f64::NEG_INFINITY].contains(&f)
}

fn stringlen_ok_str(inp: &str, out: &str) -> bool {
    let ic: Vec<char> = inp.chars().collect();
    let oc: Vec<char> = out.chars().collect();
    // prefix
    if oc.len() <= ic.len() && ic[..oc.len()] == oc[..] {
        return true;
    }
    // input + 1..9 extra items
    if oc.len() > ic.len() && oc.len() - ic.len() <= 9 && oc[..ic.len()] == ic[..] {
        return true;
    }
    // doubled
    oc.len() == 2 * ic.len() && oc[..ic.len()] == ic[..] && oc[ic.len()..] == ic[..]
}

fn stringlen_ok_bytes(inp: &[u8], out: &[u8]) -> bool {
    if out.len() <= inp.len() && inp[..out.len()] == out[..] {
        return true;
    }
    if out.len() > inp.len() && out.len() - inp.len() <= 9 && out[..inp.len()] == inp[..] {
        return true;
    }
    out.len() == 2 * inp.len() && out[..inp.len()] == inp[..] && out[inp.len()..] == inp[..]
}

/// value class pushed by an opcode according to the CPython table (None = not a plain value push)
fn pushed_classes(code: u8) -> Option<Vec<&'static str>> {
    let row = row_by_code(code)?;
    if row.after.len() != 1 {
        return None;
    }
    match row.after[0] {
        "int" | "int_or_bool" => Some(vec!["int"]),
        "bool" => Some(vec!["bool"]),
        "float" => Some(vec!["float"]),
        "str" => Some(vec!["str"]),
        "bytes" => Some(vec!["bytes"]),
        "bytes_or_str" => Some(vec!["str", "bytes"]),
        "list" => Some(vec!["list"]),
        "dict" => Some(vec!["dict"]),
        "tuple" => Some(vec!["tuple"]),
        "None" => Some(vec!["None"]),
        "set" => Some(vec!["set"]),
        "frozenset" => Some(vec!["frozenset"]),
        "bytearray" => Some(vec!["bytearray"]),
        _ => None,
    }
}

fn check_typeconfusion(acc: &mut Acc, e: &Ent, prefix: &[u8], delta: &[u8], unsafe_mode: bool, rate: f64, origin: &str) {
    check_typeconfusion_cur(acc, e, prefix, delta, delta, unsafe_mode, rate, origin);
    if unsafe_mode {
        // the generator hands ONE snapshot to every registered mutator in turn: when an earlier
        // post-processing mutator has already replaced the emission, the buffer no longer ends
        // with the snapshot's output_delta (longer, shorter, or equally long other bytes)
        const EARLIER: [&[u8]; 5] = [b"\x8c\x08confused", b"N", b"J\x01\x02\x03\x04", b"G\x3f\xf0\x00\x00\x00\x00\x00\x00", b"]"];
        let k = (delta.len() + prefix.len()) % EARLIER.len();
        for cur in [EARLIER[k], EARLIER[(k + 1) % EARLIER.len()]] {
            if cur != delta {
                check_typeconfusion_cur(acc, e, prefix, delta, cur, unsafe_mode, rate, "emission already replaced by an earlier mutator");
            }
        }
    }
}

/// `current` = the bytes that follow the prefix in the buffer when post_process is called
#[allow(clippy::too_many_arguments)]
fn check_typeconfusion_cur(acc: &mut Acc, e: &Ent, prefix: &[u8], delta: &[u8], current: &[u8], unsafe_mode: bool, rate: f64, origin: &str) {
    let tc = TypeConfusionMutator::new(unsafe_mode);
    let snap = EmissionSnapshot {
        stack_depth: 1,
        output_len: prefix.len(),
        memo_size: 0,
        stack_delta: Vec::new(),
        output_delta: delta.to_vec(),
        memo_delta: Vec::new(),
    };
    let mut out = prefix.to_vec();
    out.extend_from_slice(current);
    let before = out.clone();
    acc.evaluations += 1;
    if current != delta {
        acc.count("typeconfusion_calls_with_stale_snapshot", 1);
    }
    let wit = |out: &Vec<u8>| {
        json!({"mutator": "typeconfusion", "unsafe_mode": unsafe_mode, "entropy": e.to_json(), "rate": rate,
            "prefix_hex": hex(prefix), "delta_hex": hex(delta), "buffer_tail_before_hex": hex(current), "after_hex": hex(out), "origin": origin})
    };
    let r = with_source(e, |src| tc.post_process(&snap, &mut out, src, rate));
    let fired = match r {
        Ok(f) => f,
        Err(p) => {
            acc.violate(violation(
                "C16",
                "C16:panic:typeconfusion".into(),
                format!("typeconfusion.post_process panicked: {}", p),
                wit(&out),
            ));
            return;
        }
    };
    acc.count("typeconfusion_calls", 1);
    if !unsafe_mode {
        if fired || out != before {
            acc.violate(violation(
                "C16",
                "C16:typeconfusion:safe_mode_acts".into(),
                "typeconfusion in safe mode changed the output or reported a rewrite".into(),
                wit(&out),
            ));
        }
        return;
    }
    if !fired {
        if out != before {
            acc.violate(violation(
                "C16",
                "C16:typeconfusion:silent_change".into(),
                "typeconfusion returned false but changed the output".into(),
                wit(&out),
            ));
        }
        return;
    }
    acc.count("typeconfusion_fired", 1);
    let orig_classes = delta.first().and_then(|c| pushed_classes(*c));
    let mut problem: Option<&str> = None;
    if out.len() < prefix.len() || out[..prefix.len()] != prefix[..] {
        problem = Some("bytes before the rewritten emission changed");
    } else if orig_classes.is_none() {
        problem = Some("an opcode that does not push a plain value was rewritten");
    } else {
        match lex_prefix(&out, prefix.len()) {
            Ok(ins) if ins.len() == 1 => match pushed_classes(ins[0].op.code) {
                Some(newc) => {
                    let oc = orig_classes.unwrap();
                    let differs = oc.iter().any(|a| newc.iter().any(|b| a != b));
                    if !differs {
                        problem = Some("replacement pushes the same kind as the original");
                    }
                }
                None => problem = Some("replacement is not a value-pushing opcode"),
            },
            Ok(_) => problem = Some("replacement is not exactly one opcode"),
            Err(_) => problem = Some("replacement does not decode as a complete opcode"),
        }
    }
    if let Some(p) = problem {
        acc.violate(violation(
            "C16",
            format!("C16:typeconfusion:{}", p.split(' ').take(3).collect::<Vec<_>>().join("_")),
            format!("typeconfusion contract broken: {}", p),
            wit(&out),
        ));
    }
}

pub fn c16(thorough: bool, seed: u64) -> CheckOutput {
    let mut acc = Acc::new();
    let mut rng = Rng::new(seed ^ 0xC16);
    let ents = entropy_grid(&mut rng, if thorough { 3000 } else { 60 });
    let ints = int_grid(&mut rng, if thorough { 8000 } else { 300 });
    let strings = string_grid(&mut rng, if thorough { 600 } else { 80 });
    let bytess = bytes_grid(&mut rng, if thorough { 600 } else { 80 });
    let memos: Vec<usize> = vec![0, 1, 2, 255, 256, 257, 999, 1000, usize::MAX - 1, usize::MAX];
    let rates: Vec<f64> = vec![1.0, 0.5];

    // parallel over entropy states
    let out = par_run(
        ents.len(),
        Acc::new,
        |ei, acc| {
            let e = &ents[ei];
            for &rate in &rates {
                if rate != 1.0 && matches!(e, Ent::Bytes(_)) {
                    continue;
                }
                macro_rules! call {
                    ($name:expr, $what:expr, $val:expr, $body:expr) => {{
                        acc.evaluations += 1;
                        match with_source(e, $body) {
                            Ok(r) => r,
                            Err(p) => {
                                acc.violate(violation(
                                    "C16",
                                    format!("C16:panic:{}:{}", $name, $what),
                                    format!("{}.mutate_{} panicked: {}", $name, $what, p),
                                    json!({"mutator": $name, "method": $what, "value": format!("{:?}", $val), "entropy": e.to_json(), "rate": rate}),
                                ));
                                None
                            }
                        }
                    }};
                }
                macro_rules! bad {
                    ($name:expr, $what:expr, $val:expr, $got:expr, $msg:expr) => {
                        acc.violate(violation(
                            "C16",
                            format!("C16:{}:{}", $name, $what),
                            format!("{}.mutate_{}({:?}) -> {:?}: {}", $name, $what, $val, $got, $msg),
                            json!({"mutator": $name, "method": $what, "value": format!("{:?}", $val), "result": format!("{:?}", $got), "entropy": e.to_json(), "rate": rate}),
                        ))
                    };
                }
                for &v in &ints {
                    let vi = v as i32;
                    // bitflip
                    if let Some(r) = call!("bitflip", "int", vi, |s| BitFlipMutator.mutate_int(vi, s, rate)) {
                        acc.count("fired_bitflip_int", 1);
                        if (r ^ vi).count_ones() != 1 {
                            bad!("bitflip", "int", vi, r, "does not differ in exactly one bit");
                        }
                    }
                    if let Some(r) = call!("bitflip", "long", v, |s| BitFlipMutator.mutate_long(v, s, rate)) {
                        acc.count("fired_bitflip_long", 1);
                        if (r ^ v).count_ones() != 1 {
                            bad!("bitflip", "long", v, r, "does not differ in exactly one bit");
                        }
                    }
                    // boundary
                    if let Some(r) = call!("boundary", "int", vi, |s| BoundaryMutator.mutate_int(vi, s, rate)) {
                        acc.count("fired_boundary_int", 1);
                        if !INT_BOUNDS.contains(&r) {
                            bad!("boundary", "int", vi, r, "not a listed boundary constant");
                        }
                    }
                    if let Some(r) = call!("boundary", "long", v, |s| BoundaryMutator.mutate_long(v, s, rate)) {
                        acc.count("fired_boundary_long", 1);
                        if !LONG_BOUNDS.contains(&r) {
                            bad!("boundary", "long", v, r, "not a listed boundary constant");
                        }
                    }
                    let fv = f64::from_bits(v as u64);
                    if let Some(r) = call!("boundary", "float", fv, |s| BoundaryMutator.mutate_float(fv, s, rate)) {
                        acc.count("fired_boundary_float", 1);
                        if !float_is_boundary(r) {
                            bad!("boundary", "float", fv, r, "not a listed boundary constant");
                        }
                    }
                    // offbyone
                    if let Some(r) = call!("offbyone", "int", vi, |s| OffByOneMutator.mutate_int(vi, s, rate)) {
                        acc.count("fired_offbyone_int", 1);
                        if r != vi.wrapping_add(1) && r != vi.wrapping_sub(1) {
                            bad!("offbyone", "int", vi, r, "not value +/- 1 with wrap-around");
                        }
                    }
                    if let Some(r) = call!("offbyone", "long", v, |s| OffByOneMutator.mutate_long(v, s, rate)) {
                        acc.count("fired_offbyone_long", 1);
                        if r != v.wrapping_add(1) && r != v.wrapping_sub(1) {
                            bad!("offbyone", "long", v, r, "not value +/- 1 with wrap-around");
                        }
                    }
                }
                for &m in &memos {
                    if let Some(r) = call!("offbyone", "memo_index", m, |s| OffByOneMutator.mutate_memo_index(m, s, rate)) {
                        acc.count("fired_offbyone_memo", 1);
                        if r != m.saturating_add(1) && r != m.saturating_sub(1) {
                            bad!("offbyone", "memo_index", m, r, "not index +/- 1 saturating");
                        }
                    }
                    let safe = MemoIndexMutator::new(false);
                    if let Some(r) = call!("memoindex", "memo_index", m, |s| safe.mutate_memo_index(m, s, rate)) {
                        acc.count("fired_memoindex_safe", 1);
                        if r != m && r != m.saturating_add(1) && r != m.saturating_sub(1) {
                            bad!("memoindex", "memo_index", m, r, "safe mode moved the index by more than one");
                        }
                    }
                    let uns = MemoIndexMutator::new(true);
                    if let Some(r) = call!("memoindex", "memo_index_unsafe", m, |s| uns.mutate_memo_index(m, s, rate)) {
                        acc.count("fired_memoindex_unsafe", 1);
                        if r >= 1000 {
                            bad!("memoindex", "memo_index_unsafe", m, r, "unsafe mode index not below 1000");
                        }
                    }
                }
                for sv in &strings {
                    if let Some(r) = call!("stringlen", "string", sv, |s| StringLengthMutator.mutate_string(sv.clone(), s, rate)) {
                        acc.count("fired_stringlen_string", 1);
                        if !stringlen_ok_str(sv, &r) {
                            bad!("stringlen", "string", sv, r, "not a prefix / input+1..9 / doubled");
                        }
                    }
                    if let Some(r) = call!("character", "string", sv, |s| CharacterMutator.mutate_string(sv.clone(), s, rate)) {
                        acc.count("fired_character_string", 1);
                        let a: Vec<char> = sv.chars().collect();
                        let b: Vec<char> = r.chars().collect();
                        if a.len() != b.len() {
                            bad!("character", "string", sv, r, "length (in characters) changed");
                        } else {
                            let diff: Vec<usize> = (0..a.len()).filter(|&i| a[i] != b[i]).collect();
                            if diff.len() > 1 {
                                bad!("character", "string", sv, r, "more than one position changed");
                            } else if let Some(&i) = diff.first() {
                                if !(33..=126).contains(&(b[i] as u32)) {
                                    bad!("character", "string", sv, r, "new character is not printable (33..=126)");
                                }
                            }
                        }
                        if sv.is_empty() {
                            bad!("character", "string", sv, r, "fired on an empty string");
                        }
                    }
                }
                for bv in &bytess {
                    if let Some(r) = call!("stringlen", "bytes", bv, |s| StringLengthMutator.mutate_bytes(bv.clone(), s, rate)) {
                        acc.count("fired_stringlen_bytes", 1);
                        if !stringlen_ok_bytes(bv, &r) {
                            bad!("stringlen", "bytes", bv, r, "not a prefix / input+1..9 / doubled");
                        }
                    }
                    if let Some(r) = call!("character", "bytes", bv, |s| CharacterMutator.mutate_bytes(bv.clone(), s, rate)) {
                        acc.count("fired_character_bytes", 1);
                        if r.len() != bv.len() {
                            bad!("character", "bytes", bv, r, "length changed");
                        } else if (0..r.len()).filter(|&i| r[i] != bv[i]).count() > 1 {
                            bad!("character", "bytes", bv, r, "more than one position changed");
                        }
                    }
                }
                // default trait methods of mutators that do not handle a kind must not fire
                for (mk, m) in mutator_objs(false) {
                    for which in 0..N_CALLS {
                        if let Ok((method, fired, applicable)) = with_source(e, |s| call_all(m.as_ref(), mk, s, rate, which)) {
                            acc.evaluations += 1;
                            if fired && !applicable {
                                acc.violate(violation(
                                    "C16",
                                    format!("C16:{}:{}:unexpected", mk.name(), method),
                                    format!("{} fired on a {} value, which is outside its documented transformation", mk.name(), method),
                                    json!({"mutator": mk.name(), "method": method, "entropy": e.to_json(), "rate": rate}),
                                ));
                            }
                        }
                    }
                }
                acc.ins_nontrivial(hash128(format!("{:?}{}", e, rate).as_bytes()));
                acc.ins_distinct(hash128(format!("{:?}{}", e, rate).as_bytes()));
            }
        },
        |a, b| a.merge(b),
    );
    acc.merge(out);

    // the unsafe memo-index bound is a 1-in-1000 event per call: many PRNG / byte states
    let n_memo = if thorough { 2_000_000 } else { 200_000 };
    let memo_acc = par_run(
        n_memo,
        Acc::new,
        |i, acc| {
            let mut rng = Rng::new(mix(seed ^ 0x3E30, i as u64));
            let e = if i % 2 == 0 {
                Ent::Prng(rng.next())
            } else {
                let mut b = vec![0u8; 8]; // gate double 0.0
                b.extend(rng.bytes(8));
                Ent::Bytes(b)
            };
            let uns = MemoIndexMutator::new(true);
            let m = rng.below(2000) as usize;
            acc.evaluations += 1;
            match with_source(&e, |s| uns.mutate_memo_index(m, s, 1.0)) {
                Ok(Some(r)) => {
                    acc.count("fired_memoindex_unsafe", 1);
                    if r >= 1000 {
                        acc.violate(violation(
                            "C16",
                            "C16:memoindex:memo_index_unsafe".into(),
                            format!("memoindex.mutate_memo_index({}) in unsafe mode -> {}: not below 1000", m, r),
                            json!({"mutator": "memoindex", "unsafe_mode": true, "value": m, "result": r, "entropy": e.to_json(), "rate": 1.0}),
                        ));
                    }
                    acc.max("max_unsafe_memo_index_seen", r as u64);
                }
                Ok(None) => {}
                Err(p) => acc.violate(violation(
                    "C16",
                    "C16:panic:memoindex:memo_index_unsafe".into(),
                    format!("memoindex.mutate_memo_index panicked: {}", p),
                    json!({"entropy": e.to_json(), "value": m}),
                )),
            }
        },
        |a, b| a.merge(b),
    );
    acc.merge(memo_acc);
    // exhaustive over the two entropy bytes that follow the gate double, for boundary indices:
    // every (index, draw) pair of the three memo-index mutations is observed
    let memo_grid: Vec<usize> = vec![0, 1, 2, 254, 255, 256, 257, 997, 998, 999, 1000, 1001, 65_535, 65_536, usize::MAX - 1, usize::MAX];
    let memo_grid_ref = &memo_grid;
    let sweep = par_run(
        memo_grid.len() * 256,
        Acc::new,
        |i, acc| {
            let m = memo_grid_ref[i / 256];
            let hi = (i % 256) as u8;
            let uns = MemoIndexMutator::new(true);
            let safe = MemoIndexMutator::new(false);
            for lo in 0..=255u8 {
                let mut b = vec![0u8; 8];
                b.extend_from_slice(&[hi, lo, lo ^ 0x5a, hi ^ 0xa5, 0, 0, 0, 0]);
                let e = Ent::Bytes(b);
                acc.evaluations += 3;
                let bad = |acc: &mut Acc, which: &str, r: usize, why: &str| {
                    acc.violate(violation(
                        "C16",
                        format!("C16:{}:memo_index_sweep", which),
                        format!("{}.mutate_memo_index({}) -> {}: {}", which, m, r, why),
                        json!({"mutator": which, "value": m, "result": r, "entropy": e.to_json(), "rate": 1.0}),
                    ));
                };
                match with_source(&e, |s| uns.mutate_memo_index(m, s, 1.0)) {
                    Ok(Some(r)) => {
                        acc.count("sweep_memoindex_unsafe_fired", 1);
                        acc.max("max_unsafe_memo_index_seen", r as u64);
                        if r >= 1000 {
                            bad(acc, "memoindex_unsafe", r, "unsafe mode index not below 1000");
                        }
                    }
                    Ok(None) => {}
                    Err(p) => bad(acc, "memoindex_unsafe_panic", 0, &p),
                }
                match with_source(&e, |s| safe.mutate_memo_index(m, s, 1.0)) {
                    Ok(Some(r)) => {
                        acc.count("sweep_memoindex_safe_fired", 1);
                        if r.abs_diff(m) > 1 {
                            bad(acc, "memoindex_safe", r, "safe mode moved the index by more than one");
                        }
                    }
                    Ok(None) => {}
                    Err(p) => bad(acc, "memoindex_safe_panic", 0, &p),
                }
                match with_source(&e, |s| OffByOneMutator.mutate_memo_index(m, s, 1.0)) {
                    Ok(Some(r)) => {
                        acc.count("sweep_offbyone_memo_fired", 1);
                        if r != m.saturating_add(1) && r != m.saturating_sub(1) {
                            bad(acc, "offbyone", r, "not index +/- 1 saturating");
                        }
                    }
                    Ok(None) => {}
                    Err(p) => bad(acc, "offbyone_panic", 0, &p),
                }
            }
        },
        |a, b| a.merge(b),
    );
    acc.merge(sweep);

    // TypeConfusion on snapshots built from real emissions of every opcode + synthetic edge cases
    let n_gen = if thorough { 30_000 } else { 400 };
    let tc_acc = par_run(
        n_gen,
        Acc::new,
        |i, acc| {
            let mut rng = Rng::new(mix(seed ^ 0x7C, i as u64));
            let proto = (i % 6) as u8;
            let cfg = Config {
                ext: true,
                buf: true,
                min: 20,
                max: 120,
                ..Config::default_for(proto, Entropy::Seed(rng.next()))
            };
            let res = run_case(
                &cfg,
                Some(verif::Config {
                    snapshots: false,
                    choices: false,
                    step_limit: 0,
                }),
            );
            let Outcome::Ok(bytes) = &res.outcome else { return };
            let mut prev: Option<usize> = None;
            for ev in &res.events {
                match ev {
                    Event::Run { out_len, .. } => prev = Some(*out_len),
                    Event::Step { phase: Phase::Body, out_len, .. } => {
                        if let Some(from) = prev {
                            if *out_len > from && *out_len <= bytes.len() {
                                let e = if rng.below(2) == 0 {
                                    Ent::Prng(rng.next())
                                } else {
                                    let n = rng.below(24) as usize;
                                    // leading 0.0 double so the gate opens at rate 1 in the pinned code too
                                    let mut b = vec![0u8; 8];
                                    b.extend(rng.bytes(n));
                                    Ent::Bytes(b)
                                };
                                let name = row_by_code(bytes[from]).map(|r| r.name).unwrap_or("?");
                                acc.count(&format!("tc_snapshot_{}", name), 1);
                                check_typeconfusion(acc, &e, &bytes[..from], &bytes[from..*out_len], true, 1.0, "real emission");
                                check_typeconfusion(acc, &e, &bytes[..from], &bytes[from..*out_len], false, 1.0, "real emission");
                            }
                        }
                        prev = Some(*out_len);
                    }
                    _ => {}
                }
            }
        },
        |a, b| a.merge(b),
    );
    acc.merge(tc_acc);
    // replacement payloads at the ends of every encoding range: gate double 0.0, then the type
    // choice byte, then the value bytes the replacement draws (i32 / f64 boundary values)
    {
        let ivals: [i32; 14] = [0, 1, 255, 256, 257, 65535, 65536, 65537, -1, -256, i32::MAX, i32::MIN, 0x7fff, 0x8000];
        let originals: [&[u8]; 4] = [&[0x4e], &[0x4b, 0x07], &[0x5d], &[0x8c, 0x01, 0x61]];
        for orig in originals {
            for t in 0u8..9 {
                for v in ivals {
                    let mut b = vec![0u8; 8];
                    b.push(t);
                    b.extend_from_slice(&v.to_le_bytes());
                    b.extend_from_slice(&[0u8; 8]);
                    check_typeconfusion(&mut acc, &Ent::Bytes(b), &[0x80, 0x04], orig, true, 1.0, "boundary replacement payload");
                }
            }
        }
    }
    // synthetic: empty delta, delta with unknown byte, every opcode byte as a 1-byte delta
    for e in ents.iter().take(200) {
        check_typeconfusion(&mut acc, e, &[0x80, 0x04], &[], true, 1.0, "synthetic empty delta");
        for code in 0u16..=255 {
            check_typeconfusion(&mut acc, e, &[0x80, 0x04], &[code as u8, 1, 0, 0, 0, 0, 0, 0, 0], true, 1.0, "synthetic opcode byte");
        }
    }
    for k in [
        "fired_bitflip_int", "fired_boundary_float", "fired_offbyone_memo", "fired_stringlen_string", "fired_character_bytes",
        "fired_memoindex_safe", "fired_memoindex_unsafe", "typeconfusion_fired",
    ] {
        if acc.get(k) < 100 {
            acc.inconclusive.push(format!("{} < 100: the contract was hardly exercised", k));
        }
    }
    acc.sample(json!({"call": "BitFlipMutator.mutate_int(i32::MIN, prng seed 42, rate 1.0)", "checked": "popcount(result ^ input) == 1"}));
    acc.sample(json!({"call": "StringLengthMutator.mutate_string(\"a😀b\", bytes 00*8 01 .., rate 1.0)", "checked": "prefix | +1..9 | doubled (in characters)"}));
    acc.sample(json!({"call": "TypeConfusionMutator(unsafe).post_process(snapshot of a real BINUNICODE emission, rate 1.0)", "checked": "prefix untouched, exactly one complete opcode of another value class"}));
    CheckOutput {
        acc,
        rule: "cases = direct calls of every Mutator method: i32/i64 boundary values exhaustively (0, +-1, MIN, MAX, every power of two +-1) plus sampled values, strings / byte strings of 0..64 items incl. multi-byte characters, memo indices incl. 0 and usize::MAX, x entropy states of both sources (empty, 1..16 bytes, hostile leading doubles, exhausted mid-call, PRNG seeds); TypeConfusion on emission snapshots cut from real generations of every protocol plus synthetic deltas for all 256 opcode bytes; evaluations = calls; distinct non-trivial = distinct (entropy state, rate) blocks, each of which exercises the whole value grid".into(),
        extra: json!({"int_values": ints.len(), "strings": strings.len(), "byte_strings": bytess.len(), "memo_indices": memos.len(), "entropy_states": ents.len()}),
        assumptions: vec![
            "contracts are those listed in the property statement; 'printable' = 33..=126 as implemented and documented for the character mutator".into(),
            "GenerationSource/EntropySource are reached through the verif-hooks re-export".into(),
        ],
        exhaustive: None,
    }
}

// ================================================================ C18

pub fn c18(thorough: bool, seed: u64) -> CheckOutput {
    let grid: Vec<usize> = vec![
        0, 1, 2, 3, 94, 95, 255, 256, 257, 65535, 65536, 65537, (1usize << 32) - 1, 1usize << 32, (1usize << 32) + 1,
        usize::MAX / 2, usize::MAX - 1, usize::MAX,
    ];
    let lens: Vec<usize> = (0..=16).chain([255, 256, 65536]).collect();
    // entropy states: all byte strings of length <= 2 (exhaustive), random 3..16, PRNG states
    let mut ents: Vec<Ent> = vec![Ent::Bytes(vec![])];
    for a in 0..=255u8 {
        ents.push(Ent::Bytes(vec![a]));
    }
    let two_step = if thorough { 1 } else { 1 };
    for a in (0..=255u16).step_by(two_step) {
        for b in 0..=255u16 {
            ents.push(Ent::Bytes(vec![a as u8, b as u8]));
        }
    }
    let exhaustive_short = ents.len();
    // thorough: ALL byte strings of length 3 as well (16.7M), on a reduced argument grid
    let three_byte_states: u64 = if thorough { 1 << 24 } else { 0 };
    let mut rng = Rng::new(seed ^ 0xC18);
    let n_rand = if thorough { 400_000 } else { 8_000 };
    for _ in 0..n_rand {
        let n = 3 + rng.below(14) as usize;
        ents.push(Ent::Bytes(rng.bytes(n)));
    }
    // longer strings are not exhaustible, but the values the adapters decode from them have
    // boundaries: constant fills of every length 3..=24, and all single / paired / some tripled
    // 4-byte boundary words (0, 1, MAX, MIN, MAX-1, sign bit.. in both byte orders)
    for b in [0x00u8, 0x01, 0x7f, 0x80, 0xfe, 0xff] {
        for len in 3..=40usize {
            ents.push(Ent::Bytes(vec![b; len]));
        }
    }
    // strings whose LENGTH is special: around every multiple of 256 up to 1 KiB, and 4 KiB
    // (a remaining-length computation narrowed to a byte, a page-sized buffer)
    for len in [254usize, 255, 256, 257, 258, 511, 512, 513, 767, 768, 769, 1023, 1024, 1025, 4095, 4096, 4097] {
        ents.push(Ent::Bytes(rng.bytes(len)));
        ents.push(Ent::Bytes(vec![0u8; len]));
        ents.push(Ent::Bytes(vec![0xffu8; len]));
    }
    // 8-byte patterns read as doubles: infinities, NaNs with every low payload nibble and both
    // signs, subnormals, -0.0, the largest finite value - in both byte orders, alone and repeated
    let mut dbl: Vec<u64> = vec![
        0x7ff0_0000_0000_0000, 0xfff0_0000_0000_0000, 0x8000_0000_0000_0000, 0x0000_0000_0000_0001, 0x000f_ffff_ffff_ffff,
        0x7fef_ffff_ffff_ffff, 0xffef_ffff_ffff_ffff, 0x7ff8_0000_0000_0000, 0xfff8_0000_0000_0000, 0x7fff_ffff_ffff_ffff, 0xffff_ffff_ffff_ffff,
    ];
    for p in 1..=16u64 {
        dbl.push(0x7ff0_0000_0000_0000 | p);
        dbl.push(0xfff8_0000_0000_0000 | p);
        dbl.push(0x7ff0_0000_0000_0000 | (p << 48));
    }
    for d in HOSTILE_DOUBLES {
        dbl.push(d.to_bits());
    }
    for b in &dbl {
        for bytes in [b.to_le_bytes(), b.to_be_bytes()] {
            ents.push(Ent::Bytes(bytes.to_vec()));
            let mut v = bytes.to_vec();
            v.extend_from_slice(&bytes);
            v.extend_from_slice(&bytes);
            ents.push(Ent::Bytes(v));
        }
    }
    let mut words: Vec<[u8; 4]> = Vec::new();
    for w in [0u32, 1, 0x7fff_ffff, 0x8000_0000, 0xffff_ffff, 0xffff_fffe, 0x8000_0001, 0x0000_00ff, 0x0000_ffff, 0x00ff_ffff] {
        words.push(w.to_le_bytes());
        if w.to_be_bytes() != w.to_le_bytes() {
            words.push(w.to_be_bytes());
        }
    }
    for a in &words {
        ents.push(Ent::Bytes(a.to_vec()));
        for b in &words {
            let mut v = a.to_vec();
            v.extend_from_slice(b);
            ents.push(Ent::Bytes(v.clone()));
            let c = words[rng.below(words.len() as u64) as usize];
            v.extend_from_slice(&c);
            ents.push(Ent::Bytes(v.clone()));
            v.extend_from_slice(b);
            ents.push(Ent::Bytes(v));
        }
    }
    let n_prng = if thorough { 10_000 } else { 1_500 };
    for _ in 0..n_prng {
        ents.push(Ent::Prng(rng.next()));
    }
    let grid_ref = &grid;
    let lens_ref = &lens;
    let ents_ref = &ents;
    let mut acc = par_run(
        ents.len(),
        Acc::new,
        |ei, acc| {
            let e = &ents_ref[ei];
            let exhausted_from_start = matches!(e, Ent::Bytes(b) if b.is_empty());
            macro_rules! call {
                ($what:expr, $args:expr, $body:expr) => {{
                    acc.evaluations += 1;
                    match with_source(e, $body) {
                        Ok(r) => Some(r),
                        Err(p) => {
                            acc.violate(violation(
                                "C18",
                                format!("C18:panic:{}:{}", $what, e.mode()),
                                format!("{}{:?} panicked: {}", $what, $args, p),
                                json!({"method": $what, "args": format!("{:?}", $args), "entropy": e.to_json()}),
                            ));
                            None
                        }
                    }
                }};
            }
            macro_rules! bad {
                ($what:expr, $args:expr, $got:expr, $msg:expr) => {
                    acc.violate(violation(
                        "C18",
                        format!("C18:{}:{}", $what, e.mode()),
                        format!("{}{:?} -> {:?}: {}", $what, $args, $got, $msg),
                        json!({"method": $what, "args": format!("{:?}", $args), "result": format!("{:?}", $got), "entropy": e.to_json()}),
                    ))
                };
            }
            for &n in grid_ref {
                if let Some(r) = call!("choose_index", (n,), |s| s.choose_index(n)) {
                    if (n == 0 && r != 0) || (n > 0 && r >= n) {
                        bad!("choose_index", (n,), r, "not below n");
                    }
                    if exhausted_from_start && r != 0 {
                        bad!("choose_index", (n,), r, "exhausted input must fall back to 0");
                    }
                }
                for &b in grid_ref {
                    let a = n;
                    if let Some(r) = call!("gen_range", (a, b), |s| s.gen_range(a, b)) {
                        let ok = if a >= b { r == a } else { r >= a && r < b };
                        if !ok {
                            bad!("gen_range", (a, b), r, "outside [a,b) (or != a for a >= b)");
                        }
                        if exhausted_from_start && r != a {
                            bad!("gen_range", (a, b), r, "exhausted input must fall back to a");
                        }
                    }
                }
            }
            // draws after partial consumption: consume k bytes first, then draw
            for k in [0usize, 1, 2, 7, 8, 9] {
                if let Some((c, r, i)) = call!("sequence", (k,), |s| {
                    for _ in 0..k {
                        s.gen_u8();
                    }
                    (s.gen_ascii_char(), s.gen_range(10, 20), s.choose_index(7))
                }) {
                    if !(0x20..=0x7E).contains(&(c as u32)) {
                        bad!("gen_ascii_char", (k,), c, "not printable ASCII");
                    }
                    if !(10..20).contains(&r) {
                        bad!("gen_range", (10, 20, k), r, "outside [10,20) after partial consumption");
                    }
                    if i >= 7 {
                        bad!("choose_index", (7, k), i, "not below 7 after partial consumption");
                    }
                }
            }
            for &len in lens_ref {
                if let Some(r) = call!("gen_bytes", (len,), |s| s.gen_bytes(len)) {
                    if r.len() != len {
                        bad!("gen_bytes", (len,), r.len(), "wrong length");
                    }
                    if exhausted_from_start && r.iter().any(|&x| x != 0) {
                        bad!("gen_bytes", (len,), "non-zero", "exhausted input must fall back to zeros");
                    }
                }
            }
            // every scalar draw on its own, at the start of the input and after k bytes were
            // consumed (so that each one gets to decode every part of the string): no panic, and
            // the same answer twice
            for k in [0usize, 1, 2, 3, 4, 7, 8, 16, 255, 256, 257] {
                let single = |s: &mut GenerationSource, which: usize| -> u64 {
                    for _ in 0..k {
                        s.gen_u8();
                    }
                    match which {
                        0 => s.gen_bool() as u64,
                        1 => s.gen_u8() as u64,
                        2 => s.gen_u16() as u64,
                        3 => s.gen_u32() as u64,
                        4 => s.gen_i32() as u64,
                        5 => s.gen_i64() as u64,
                        _ => s.gen_f64().to_bits(),
                    }
                };
                for which in 0..7usize {
                    let a = call!("single_draw", (which, k), |s| single(s, which));
                    let b = call!("single_draw", (which, k), |s| single(s, which));
                    if a != b {
                        bad!("single_draw", (which, k), (&a, &b), "two runs from the same entropy state differ");
                    }
                }
            }
            // determinism of every draw: same state twice -> same answers
            let draw_all = |s: &mut GenerationSource| {
                (
                    s.choose_index(1000),
                    s.gen_bool(),
                    s.gen_u8(),
                    s.gen_u16(),
                    s.gen_u32(),
                    s.gen_i32(),
                    s.gen_i64(),
                    s.gen_f64().to_bits(),
                    s.gen_range(5, 500),
                    s.gen_bytes(5),
                    s.gen_ascii_char(),
                )
            };
            let r1 = call!("draw_all", (), draw_all);
            let r2 = call!("draw_all", (), draw_all);
            if r1 != r2 {
                bad!("draw_all", (), (&r1, &r2), "two runs from the same entropy state differ");
            }
            if exhausted_from_start {
                if let Some(r) = r1 {
                    let want = (0usize, false, 0u8, 0u16, 0u32, 0i32, 0i64, 0.0f64.to_bits(), 5usize, vec![0u8; 5], 'a');
                    if r != want {
                        bad!("draw_all", (), r, "exhausted input does not give the documented fallbacks (0/false/min/zeros/'a')");
                    }
                }
            }
            // exhaustion in the middle: after the input is used up every further draw is the fallback
            if let Ent::Bytes(b) = e {
                if let Some(r) = call!("after_exhaustion", (b.len(),), |s| {
                    for _ in 0..b.len() + 1 {
                        s.gen_u8();
                    }
                    (s.choose_index(9), s.gen_range(3, 9), s.gen_bool(), s.gen_ascii_char(), s.gen_f64().to_bits())
                }) {
                    if r != (0, 3, false, 'a', 0.0f64.to_bits()) {
                        bad!("after_exhaustion", (b.len(),), r, "draws after exhaustion are not the fixed fallbacks");
                    }
                }
                acc.count("byte_string_states", 1);
            } else {
                acc.count("prng_states", 1);
            }
            let h = hash128(format!("{:?}", e).as_bytes());
            acc.ins_distinct(h);
            acc.ins_nontrivial(h);
        },
        |a, b| a.merge(b),
    );
    if three_byte_states > 0 {
        let small: [usize; 9] = [0, 1, 2, 3, 255, 256, 257, 65536, usize::MAX];
        let a3 = par_run(
            (three_byte_states / 256) as usize,
            Acc::new,
            |hi, acc| {
                for lo in 0..256usize {
                    let bytes = vec![(hi >> 8) as u8, (hi & 0xff) as u8, lo as u8];
                    let e = Ent::Bytes(bytes);
                    let r = with_source(&e, |s| {
                        let mut bad: Option<String> = None;
                        for &n in &small {
                            let mut u = arbitrary::Unstructured::new(match &e {
                                Ent::Bytes(b) => b,
                                _ => unreachable!(),
                            });
                            let mut src = GenerationSource::Arbitrary(&mut u);
                            let r = src.choose_index(n);
                            if (n == 0 && r != 0) || (n > 0 && r >= n) {
                                bad = Some(format!("choose_index({}) -> {}", n, r));
                            }
                        }
                        for &(a, b) in &[(0usize, 1usize), (1, 10), (3, 9), (5, 5), (9, 3), (0, 256), (255, 257), (1, usize::MAX), (usize::MAX - 1, usize::MAX)] {
                            let mut u = arbitrary::Unstructured::new(match &e {
                                Ent::Bytes(b) => b,
                                _ => unreachable!(),
                            });
                            let mut src = GenerationSource::Arbitrary(&mut u);
                            let r = src.gen_range(a, b);
                            let ok = if a >= b { r == a } else { r >= a && r < b };
                            if !ok {
                                bad = Some(format!("gen_range({},{}) -> {}", a, b, r));
                            }
                        }
                        let c = s.gen_ascii_char();
                        if !(0x20..=0x7E).contains(&(c as u32)) {
                            bad = Some(format!("gen_ascii_char -> {:?}", c));
                        }
                        let c2 = s.gen_ascii_char();
                        let c3 = s.gen_ascii_char();
                        let c4 = s.gen_ascii_char();
                        for c in [c2, c3, c4] {
                            if !(0x20..=0x7E).contains(&(c as u32)) {
                                bad = Some(format!("gen_ascii_char -> {:?}", c));
                            }
                        }
                        bad
                    });
                    acc.evaluations += 22;
                    match r {
                        Ok(None) => {}
                        Ok(Some(m)) => acc.violate(violation(
                            "C18",
                            format!("C18:{}:bytes", m.split('(').next().unwrap_or("draw")),
                            format!("{} on a 3-byte entropy state: out of range", m),
                            json!({"entropy": e.to_json(), "call": m}),
                        )),
                        Err(p) => acc.violate(violation(
                            "C18",
                            "C18:panic:three_byte:bytes".into(),
                            format!("entropy adapter panicked on a 3-byte state: {}", p),
                            json!({"entropy": e.to_json()}),
                        )),
                    }
                    acc.count("three_byte_string_states", 1);
                }
            },
            |a, b| a.merge(b),
        );
        acc.merge(a3);
    }
    acc.sample(json!({"entropy": {"bytes_hex": "ff"}, "call": "choose_index(256)", "checked": "< 256"}));
    acc.sample(json!({"entropy": {"bytes_hex": ""}, "call": "gen_range(3,9)", "checked": "== 3 (fallback)"}));
    acc.sample(json!({"entropy": {"prng_seed": 42}, "call": "gen_range(usize::MAX-1, usize::MAX)", "checked": "== usize::MAX-1"}));
    CheckOutput {
        acc,
        rule: "cases = every EntropySource method on harness-built sources: n,a,b over an 18-point grid incl. 0,1,255,256,257,65536,2^32+-1,usize::MAX (all pairs), lengths 0..16,255,256,65536, x entropy states = ALL fuzzer byte strings of length <= 2 (65 793, exhaustive) + random strings of length 3..16 + constant fills of length 3..40, 8-byte double patterns (NaN payloads, infinities, subnormals) and concatenations of 4-byte boundary words + PRNG seeds; every scalar draw also on its own after 0..16 consumed bytes; evaluations = calls; distinct non-trivial = distinct entropy states (each runs the whole argument grid)".into(),
        extra: json!({"grid": grid.len(), "exhaustive_byte_strings_len_le_2": exhaustive_short, "exhaustive_byte_strings_len_3": three_byte_states, "entropy_states": ents.len()}),
        assumptions: vec!["documented fallbacks: 0 / false / min / zeros / 'a' (first table entry)".into()],
        exhaustive: None,
    }
}
