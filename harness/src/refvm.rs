//! O2 — flat reference pickle machine with `pickletools.dis` stack semantics,
//! extended with a kind per object and object identity. Written independently
//! of the code under test; the stack arithmetic is driven by the
//! `stack_before` / `stack_after` columns of the CPython opcode table.

use std::collections::BTreeMap;

use crate::lexer::{Arg, Ins};

#[derive(Debug, Clone, Copy, PartialEq, Eq, Hash, PartialOrd, Ord)]
pub enum Kind {
    Int,
    Bool,
    Float,
    None,
    Str,
    Bytes,
    ByteArray,
    /// STRING / BINSTRING / SHORT_BINSTRING: str or bytes depending on the unpickler's encoding
    StrOrBytes,
    List,
    Tuple,
    Dict,
    Set,
    FrozenSet,
    Global,
    /// object produced by REDUCE / NEWOBJ / NEWOBJ_EX / INST / OBJ
    Instance,
    Buffer,
    /// kind left open by the format (PERSID, BINPERSID, EXT*)
    Any,
}

impl Kind {
    pub fn name(self) -> &'static str {
        match self {
            Kind::Int => "int",
            Kind::Bool => "bool",
            Kind::Float => "float",
            Kind::None => "None",
            Kind::Str => "str",
            Kind::Bytes => "bytes",
            Kind::ByteArray => "bytearray",
            Kind::StrOrBytes => "str_or_bytes",
            Kind::List => "list",
            Kind::Tuple => "tuple",
            Kind::Dict => "dict",
            Kind::Set => "set",
            Kind::FrozenSet => "frozenset",
            Kind::Global => "global",
            Kind::Instance => "instance",
            Kind::Buffer => "buffer",
            Kind::Any => "any",
        }
    }
    /// plain data: cannot be a callee / BUILD target
    pub fn is_data(self) -> bool {
        !matches!(self, Kind::Global | Kind::Instance | Kind::Any)
    }
    pub fn stringish(self) -> bool {
        matches!(self, Kind::Str | Kind::StrOrBytes | Kind::Any)
    }
}

pub type ObjId = usize;

#[derive(Debug, Clone, Copy, PartialEq, Eq)]
pub enum Slot {
    Mark,
    Obj(ObjId),
}

#[derive(Debug, Clone)]
pub struct Obj {
    pub kind: Kind,
    /// ids stored inside this object (container members, call args, state)
    pub members: Vec<ObjId>,
    /// a MARK was consumed as an ordinary operand into this object
    pub holds_mark: bool,
}

#[derive(Debug, Clone, PartialEq)]
pub enum VmError {
    Underflow { need: usize, have: usize },
    NoMark,
    MemoUndefined(i128),
    MemoRedefined(i128),
    MemoStoreEmpty,
    MemoStoreMark,
    MemoBadIndex,
    StopStack(usize),
}

impl std::fmt::Display for VmError {
    fn fmt(&self, f: &mut std::fmt::Formatter<'_>) -> std::fmt::Result {
        match self {
            VmError::Underflow { need, have } => write!(
                f,
                "tries to pop {} items from stack with only {} items",
                need, have
            ),
            VmError::NoMark => write!(f, "no MARK exists on stack"),
            VmError::MemoUndefined(k) => write!(f, "memo key {} has never been stored into", k),
            VmError::MemoRedefined(k) => write!(f, "memo key {} already defined", k),
            VmError::MemoStoreEmpty => write!(f, "stack is empty -- can't store into memo"),
            VmError::MemoStoreMark => write!(f, "can't store markobject in the memo"),
            VmError::MemoBadIndex => write!(f, "memo index is not a plain integer"),
            VmError::StopStack(n) => write!(f, "stack not empty after STOP: {} items left", n),
        }
    }
}

/// operand-kind finding (C03); not a `dis` error.
#[derive(Debug, Clone)]
pub struct KindFinding {
    pub opcode: &'static str,
    pub msg: String,
}

#[derive(Debug, Clone, Default)]
pub struct StepInfo {
    pub findings: Vec<KindFinding>,
    /// an object was stored into a container it is reachable from / aliased
    pub alias_insert: bool,
    /// the insertion closed an identity cycle
    pub cycle_closed: bool,
    /// operand count for mark-consuming opcodes
    pub slice_len: Option<usize>,
}

#[derive(Debug, Clone, Default)]
pub struct Vm {
    pub stack: Vec<Slot>,
    pub memo: BTreeMap<i128, ObjId>,
    pub objs: Vec<Obj>,
    pub track_identity: bool,
    /// record memo-discipline errors in `memo_errs` and continue (GET of an
    /// undefined key pushes an `Any`, a re-definition overwrites) instead of stopping
    pub lenient_memo: bool,
    pub memo_errs: Vec<VmError>,
}

fn finding(v: &mut Vec<KindFinding>, opcode: &'static str, msg: String) {
    v.push(KindFinding { opcode, msg });
}

impl Vm {
    pub fn new(track_identity: bool) -> Self {
        Vm {
            stack: Vec::new(),
            memo: BTreeMap::new(),
            objs: Vec::new(),
            track_identity,
            lenient_memo: false,
            memo_errs: Vec::new(),
        }
    }

    fn new_obj(&mut self, kind: Kind) -> ObjId {
        self.objs.push(Obj {
            kind,
            members: Vec::new(),
            holds_mark: false,
        });
        self.objs.len() - 1
    }

    pub fn kind_of(&self, s: Slot) -> Option<Kind> {
        match s {
            Slot::Mark => None,
            Slot::Obj(i) => Some(self.objs[i].kind),
        }
    }

    fn top_mark_index(&self) -> Option<usize> {
        self.stack.iter().rposition(|s| *s == Slot::Mark)
    }

    pub fn has_mark(&self) -> bool {
        self.top_mark_index().is_some()
    }

    pub fn items_above_mark(&self) -> Option<usize> {
        self.top_mark_index().map(|i| self.stack.len() - 1 - i)
    }

    /// does `from` reach `target` through stored members (identity DFS)?
    fn reaches(&self, from: ObjId, target: ObjId) -> bool {
        if from == target {
            return true;
        }
        let mut seen = vec![false; self.objs.len()];
        let mut todo = vec![from];
        while let Some(x) = todo.pop() {
            if x == target {
                return true;
            }
            if seen[x] {
                continue;
            }
            seen[x] = true;
            for &m in &self.objs[x].members {
                if !seen[m] {
                    todo.push(m);
                }
            }
        }
        false
    }

    fn store(&mut self, container: Slot, items: &[Slot], info: &mut StepInfo) {
        if let Slot::Obj(c) = container {
            for it in items {
                match it {
                    Slot::Mark => self.objs[c].holds_mark = true,
                    Slot::Obj(i) => {
                        if self.track_identity {
                            if self.reaches(*i, c) {
                                info.cycle_closed = true;
                                info.alias_insert = true;
                            }
                            self.objs[c].members.push(*i);
                        }
                    }
                }
            }
        }
    }

    fn build_from(&mut self, kind: Kind, items: &[Slot]) -> Slot {
        let id = self.new_obj(kind);
        for it in items {
            match it {
                Slot::Mark => self.objs[id].holds_mark = true,
                Slot::Obj(i) => {
                    if self.track_identity {
                        self.objs[id].members.push(*i);
                    }
                }
            }
        }
        Slot::Obj(id)
    }

    /// results pushed by an opcode are always objects: when a MARK was consumed as
    /// the ordinary "target" operand, `dis` pushes the table's result object instead
    fn target_as_obj(&mut self, s: Slot, kind: Kind) -> Slot {
        match s {
            Slot::Obj(_) => s,
            Slot::Mark => {
                let o = self.new_obj(kind);
                self.objs[o].holds_mark = true;
                Slot::Obj(o)
            }
        }
    }

    fn slot_desc(&self, s: Slot) -> String {
        match s {
            Slot::Mark => "MARK".to_string(),
            Slot::Obj(i) => self.objs[i].kind.name().to_string(),
        }
    }

    /// Operand-kind preconditions (C03) of `name` in the current state, before
    /// execution. Empty when the opcode has none or they hold. Also usable for
    /// "offered" analysis: pass an opcode that has not been executed.
    pub fn kind_preconditions(&self, name: &'static str) -> Vec<KindFinding> {
        let mut f = Vec::new();
        let n = self.stack.len();
        let at = |d: usize| -> Option<Slot> {
            if d < n {
                Some(self.stack[n - 1 - d])
            } else {
                None
            }
        };
        let is = |s: Option<Slot>, ok: &dyn Fn(Kind) -> bool| -> bool {
            match s {
                Some(Slot::Obj(i)) => ok(self.objs[i].kind),
                _ => false,
            }
        };
        let desc = |s: Option<Slot>| -> String {
            match s {
                None => "<nothing>".to_string(),
                Some(x) => self.slot_desc(x),
            }
        };
        let below_mark = || -> Option<Slot> {
            self.top_mark_index()
                .and_then(|i| if i > 0 { Some(self.stack[i - 1]) } else { None })
        };
        match name {
            "APPEND" => {
                if !is(at(1), &|k| matches!(k, Kind::List | Kind::Any)) {
                    finding(&mut f, name, format!("target below TOS is {}, not a list", desc(at(1))));
                }
            }
            "APPENDS" => {
                let t = below_mark();
                if !is(t, &|k| matches!(k, Kind::List | Kind::Any)) {
                    finding(&mut f, name, format!("object below MARK is {}, not a list", desc(t)));
                }
            }
            "SETITEM" => {
                if !is(at(2), &|k| matches!(k, Kind::Dict | Kind::Any)) {
                    finding(&mut f, name, format!("target is {}, not a dict", desc(at(2))));
                }
            }
            "SETITEMS" => {
                let t = below_mark();
                if !is(t, &|k| matches!(k, Kind::Dict | Kind::Any)) {
                    finding(&mut f, name, format!("object below MARK is {}, not a dict", desc(t)));
                }
                if let Some(c) = self.items_above_mark() {
                    if c % 2 != 0 {
                        finding(&mut f, name, format!("odd number of key/value operands ({})", c));
                    }
                }
            }
            "ADDITEMS" => {
                let t = below_mark();
                if !is(t, &|k| matches!(k, Kind::Set | Kind::Any)) {
                    finding(&mut f, name, format!("object below MARK is {}, not a set", desc(t)));
                }
            }
            "DICT" => {
                if let Some(c) = self.items_above_mark() {
                    if c % 2 != 0 {
                        finding(&mut f, name, format!("odd number of key/value operands ({})", c));
                    }
                }
            }
            "STACK_GLOBAL" => {
                for d in 0..2 {
                    if !is(at(d), &|k| k.stringish()) {
                        finding(
                            &mut f,
                            name,
                            format!("operand at depth {} is {}, not a string", d, desc(at(d))),
                        );
                    }
                }
            }
            "REDUCE" | "NEWOBJ" => {
                if !is(at(0), &|k| matches!(k, Kind::Tuple | Kind::Any)) {
                    finding(&mut f, name, format!("argument is {}, not a tuple", desc(at(0))));
                }
                if !is(at(1), &|k| !k.is_data()) {
                    finding(&mut f, name, format!("callee is {}, a data object / not an object", desc(at(1))));
                }
            }
            "NEWOBJ_EX" => {
                if !is(at(0), &|k| matches!(k, Kind::Dict | Kind::Any)) {
                    finding(&mut f, name, format!("kwargs is {}, not a dict", desc(at(0))));
                }
                if !is(at(1), &|k| matches!(k, Kind::Tuple | Kind::Any)) {
                    finding(&mut f, name, format!("args is {}, not a tuple", desc(at(1))));
                }
                if !is(at(2), &|k| !k.is_data()) {
                    finding(&mut f, name, format!("callee is {}, a data object / not an object", desc(at(2))));
                }
            }
            "BUILD" => {
                if !is(at(0), &|k| matches!(k, Kind::Tuple | Kind::Dict | Kind::Any)) {
                    finding(&mut f, name, format!("state is {}, not a tuple/dict", desc(at(0))));
                }
                if !is(at(1), &|k| !k.is_data()) {
                    finding(&mut f, name, format!("target is {}, not an object", desc(at(1))));
                }
            }
            "OBJ" => match self.top_mark_index() {
                Some(i) => {
                    let callee = if i + 1 < n { Some(self.stack[i + 1]) } else { None };
                    if !is(callee, &|k| !k.is_data()) {
                        finding(
                            &mut f,
                            name,
                            format!("item directly above MARK is {}, not a callee", desc(callee)),
                        );
                    }
                }
                None => {}
            },
            "DUP" => {
                if at(0) == Some(Slot::Mark) {
                    finding(&mut f, name, "duplicates a MARK".to_string());
                }
            }
            _ => {}
        }
        f
    }

    /// Would `name` be rejected by the `dis` stack/memo discipline in the
    /// current state? (arity + MARK presence only; memo indices not known)
    pub fn stack_precondition(&self, row: &crate::optable::OpRow) -> Option<VmError> {
        let uses_mark = row.before.contains(&"mark");
        if uses_mark {
            if !self.has_mark() {
                return Some(VmError::NoMark);
            }
            let idx = row.before.iter().position(|s| *s == "mark").unwrap();
            // items required below the mark
            let below = self.top_mark_index().unwrap();
            if below < idx {
                return Some(VmError::Underflow { need: idx, have: below });
            }
            return None;
        }
        let need = row.before.len();
        if self.stack.len() < need {
            return Some(VmError::Underflow {
                need,
                have: self.stack.len(),
            });
        }
        None
    }

    /// Execute one instruction with `dis` semantics.
    pub fn step(&mut self, ins: &Ins) -> Result<StepInfo, VmError> {
        let name = ins.op.name;
        let mut info = StepInfo {
            findings: self.kind_preconditions(name),
            ..Default::default()
        };
        let before = ins.op.before;
        let mut numtopop = before.len();
        let uses_mark = before.contains(&"mark");
        let pop_on_mark = name == "POP" && self.stack.last() == Some(&Slot::Mark);
        let mut slice: Vec<Slot> = Vec::new();

        if uses_mark || pop_on_mark {
            match self.top_mark_index() {
                Some(mi) => {
                    slice = self.stack.split_off(mi + 1);
                    self.stack.pop(); // the mark
                    info.slice_len = Some(slice.len());
                    numtopop = if uses_mark {
                        before.iter().position(|s| *s == "mark").unwrap()
                    } else {
                        0
                    };
                }
                None => return Err(VmError::NoMark),
            }
        }

        // memo discipline (checked before the stack effect, as dis does)
        let mut get_obj: Option<ObjId> = None;
        let mut memo_err: Option<VmError> = None;
        match name {
            "PUT" | "BINPUT" | "LONG_BINPUT" | "MEMOIZE" => {
                let idx = if name == "MEMOIZE" {
                    Some(self.memo.len() as i128)
                } else {
                    match ins.arg {
                        Arg::Int(v) => Some(v),
                        Arg::Bool(b) => Some(b as i128),
                        _ => None,
                    }
                };
                match idx {
                    None => memo_err = Some(VmError::MemoBadIndex),
                    Some(idx) => {
                        if self.memo.contains_key(&idx) {
                            memo_err = Some(VmError::MemoRedefined(idx));
                        }
                        match self.stack.last() {
                            None => memo_err = memo_err.or(Some(VmError::MemoStoreEmpty)),
                            Some(Slot::Mark) => memo_err = memo_err.or(Some(VmError::MemoStoreMark)),
                            Some(Slot::Obj(i)) => {
                                if memo_err.is_none() || self.lenient_memo {
                                    self.memo.insert(idx, *i);
                                }
                            }
                        }
                    }
                }
            }
            "GET" | "BINGET" | "LONG_BINGET" => {
                let idx = match ins.arg {
                    Arg::Int(v) => Some(v),
                    Arg::Bool(b) => Some(b as i128),
                    _ => None,
                };
                match idx.and_then(|k| self.memo.get(&k).copied()) {
                    Some(o) => get_obj = Some(o),
                    None => {
                        memo_err = Some(match idx {
                            Some(k) => VmError::MemoUndefined(k),
                            None => VmError::MemoBadIndex,
                        });
                        if self.lenient_memo {
                            get_obj = Some(self.new_obj(Kind::Any));
                        }
                    }
                }
            }
            _ => {}
        }
        if let Some(e) = memo_err {
            if self.lenient_memo {
                self.memo_errs.push(e);
            } else {
                return Err(e);
            }
        }

        if self.stack.len() < numtopop {
            return Err(VmError::Underflow {
                need: numtopop,
                have: self.stack.len(),
            });
        }
        let depth_before_effect = self.stack.len();
        let popped: Vec<Slot> = self.stack.split_off(self.stack.len() - numtopop);

        // push results, with kinds and identity
        match name {
            "INT" => {
                let k = if matches!(ins.arg, Arg::Bool(_)) { Kind::Bool } else { Kind::Int };
                let o = self.new_obj(k);
                self.stack.push(Slot::Obj(o));
            }
            "BININT" | "BININT1" | "BININT2" | "LONG" | "LONG1" | "LONG4" => {
                let o = self.new_obj(Kind::Int);
                self.stack.push(Slot::Obj(o));
            }
            "FLOAT" | "BINFLOAT" => {
                let o = self.new_obj(Kind::Float);
                self.stack.push(Slot::Obj(o));
            }
            "NONE" => {
                let o = self.new_obj(Kind::None);
                self.stack.push(Slot::Obj(o));
            }
            "NEWTRUE" | "NEWFALSE" => {
                let o = self.new_obj(Kind::Bool);
                self.stack.push(Slot::Obj(o));
            }
            "STRING" | "BINSTRING" | "SHORT_BINSTRING" => {
                let o = self.new_obj(Kind::StrOrBytes);
                self.stack.push(Slot::Obj(o));
            }
            "UNICODE" | "BINUNICODE" | "SHORT_BINUNICODE" | "BINUNICODE8" => {
                let o = self.new_obj(Kind::Str);
                self.stack.push(Slot::Obj(o));
            }
            "BINBYTES" | "SHORT_BINBYTES" | "BINBYTES8" => {
                let o = self.new_obj(Kind::Bytes);
                self.stack.push(Slot::Obj(o));
            }
            "BYTEARRAY8" => {
                let o = self.new_obj(Kind::ByteArray);
                self.stack.push(Slot::Obj(o));
            }
            "NEXT_BUFFER" => {
                let o = self.new_obj(Kind::Buffer);
                self.stack.push(Slot::Obj(o));
            }
            "READONLY_BUFFER" => {
                // pops one object, pushes a read-only view of it
                match popped[0] {
                    Slot::Obj(i) => self.stack.push(Slot::Obj(i)),
                    Slot::Mark => {
                        let o = self.new_obj(Kind::Any);
                        self.objs[o].holds_mark = true;
                        self.stack.push(Slot::Obj(o));
                    }
                }
            }
            "EMPTY_LIST" => {
                let o = self.new_obj(Kind::List);
                self.stack.push(Slot::Obj(o));
            }
            "EMPTY_TUPLE" => {
                let o = self.new_obj(Kind::Tuple);
                self.stack.push(Slot::Obj(o));
            }
            "EMPTY_DICT" => {
                let o = self.new_obj(Kind::Dict);
                self.stack.push(Slot::Obj(o));
            }
            "EMPTY_SET" => {
                let o = self.new_obj(Kind::Set);
                self.stack.push(Slot::Obj(o));
            }
            "LIST" => {
                let s = self.build_from(Kind::List, &slice);
                self.stack.push(s);
            }
            "TUPLE" => {
                let s = self.build_from(Kind::Tuple, &slice);
                self.stack.push(s);
            }
            "DICT" => {
                let s = self.build_from(Kind::Dict, &slice);
                self.stack.push(s);
            }
            "FROZENSET" => {
                let s = self.build_from(Kind::FrozenSet, &slice);
                self.stack.push(s);
            }
            "TUPLE1" | "TUPLE2" | "TUPLE3" => {
                let s = self.build_from(Kind::Tuple, &popped);
                self.stack.push(s);
            }
            "APPEND" => {
                let target = self.target_as_obj(popped[0], Kind::List);
                self.store(target, &popped[1..], &mut info);
                self.stack.push(target);
            }
            "SETITEM" => {
                let target = self.target_as_obj(popped[0], Kind::Dict);
                self.store(target, &popped[1..], &mut info);
                self.stack.push(target);
            }
            "APPENDS" | "SETITEMS" | "ADDITEMS" => {
                let kind = match name {
                    "APPENDS" => Kind::List,
                    "SETITEMS" => Kind::Dict,
                    _ => Kind::Set,
                };
                let target = self.target_as_obj(popped[0], kind);
                self.store(target, &slice, &mut info);
                self.stack.push(target);
            }
            "POP" | "POP_MARK" => {}
            "DUP" => {
                let t = popped[0];
                match t {
                    Slot::Obj(_) => {
                        self.stack.push(t);
                        self.stack.push(t);
                    }
                    Slot::Mark => {
                        // dis: pops the markobject, pushes two anyobjects
                        let a = self.new_obj(Kind::Any);
                        let b = self.new_obj(Kind::Any);
                        self.objs[a].holds_mark = true;
                        self.objs[b].holds_mark = true;
                        self.stack.push(Slot::Obj(a));
                        self.stack.push(Slot::Obj(b));
                    }
                }
            }
            "MARK" => self.stack.push(Slot::Mark),
            "GET" | "BINGET" | "LONG_BINGET" => {
                self.stack.push(Slot::Obj(get_obj.unwrap()));
            }
            "PUT" | "BINPUT" | "LONG_BINPUT" | "MEMOIZE" => {
                // table: MEMOIZE pops the top object and pushes it back; PUT* leave the stack alone
                for p in popped.clone() {
                    let p = self.target_as_obj(p, Kind::Any);
                    self.stack.push(p);
                }
            }
            "EXT1" | "EXT2" | "EXT4" | "PERSID" => {
                let o = self.new_obj(Kind::Any);
                self.stack.push(Slot::Obj(o));
            }
            "BINPERSID" => {
                let s = self.build_from(Kind::Any, &popped);
                self.stack.push(s);
            }
            "GLOBAL" => {
                let o = self.new_obj(Kind::Global);
                self.stack.push(Slot::Obj(o));
            }
            "STACK_GLOBAL" => {
                let o = self.new_obj(Kind::Global);
                self.stack.push(Slot::Obj(o));
            }
            "REDUCE" | "NEWOBJ" | "NEWOBJ_EX" => {
                let s = self.build_from(Kind::Instance, &popped);
                self.stack.push(s);
            }
            "BUILD" => {
                let target = popped[0];
                self.store(target, &popped[1..], &mut info);
                // BUILD leaves the (same) object on the stack
                match target {
                    Slot::Obj(_) => self.stack.push(target),
                    Slot::Mark => {
                        let o = self.new_obj(Kind::Any);
                        self.objs[o].holds_mark = true;
                        self.stack.push(Slot::Obj(o));
                    }
                }
            }
            "INST" | "OBJ" => {
                let s = self.build_from(Kind::Instance, &slice);
                self.stack.push(s);
            }
            "PROTO" | "FRAME" => {}
            "STOP" => {
                if !self.stack.is_empty() {
                    return Err(VmError::StopStack(self.stack.len()));
                }
            }
            other => panic!("refvm: opcode {} not modelled", other),
        }

        // oracle self-check against the table's stack_after arity
        let expect = depth_before_effect - numtopop + ins.op.after.len();
        assert_eq!(
            self.stack.len(),
            expect,
            "refvm self-check: {} left depth {} but the table says {}",
            name,
            self.stack.len(),
            expect
        );
        Ok(info)
    }
}

/// outcome of running a whole pickle
#[derive(Debug, Clone)]
pub struct RunError {
    pub index: usize,
    pub pos: usize,
    pub opcode: &'static str,
    pub err: VmError,
}

impl std::fmt::Display for RunError {
    fn fmt(&self, f: &mut std::fmt::Formatter<'_>) -> std::fmt::Result {
        write!(f, "{} at offset {} (opcode #{}): {}", self.opcode, self.pos, self.index, self.err)
    }
}
