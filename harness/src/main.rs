//! pfv — runtime-monitoring harness for pickle-fuzzer (see /verif/DESIGN.md).
//!
//! pfv check <ID> <quick|thorough> <seed> <outdir>   run the monitor of one property
//! pfv replay <file>                                 re-execute a recorded violation
//! pfv libgen <config.json>                          library bytes for a configuration (hex)
//! pfv child ...                                     internal: one case in a child process

mod analysis;
mod common;
mod lexer;
mod mon_api;
mod mon_bytes;
mod mon_hist;
mod mon_trace;
mod optable;
mod refvm;
mod workload;

use std::io::Write;
use std::time::Instant;

use serde_json::{json, Value};

use common::*;

pub struct CheckOutput {
    pub acc: Acc,
    pub rule: String,
    pub extra: Value,
    pub assumptions: Vec<String>,
    pub exhaustive: Option<bool>,
}

fn write_result(id: &str, tier: &str, seed: u64, outdir: &str, out: CheckOutput, wall: f64) -> i32 {
    std::fs::create_dir_all(format!("{}/replay", outdir)).ok();
    let mut acc = out.acc;
    // oracle self-test: structure-unaware random opcode streams judged by O1/O2, appended to the
    // CPython cross-check of this run (only for checks that cross-check at all)
    let mut selftest = 0u64;
    if !acc.o3.is_empty() {
        let n = if tier == "thorough" { 200_000 } else { 20_000 };
        let mut rng = Rng::new(seed ^ 0x5E1F7E57);
        for _ in 0..n {
            let b = workload::random_stream(&mut rng);
            let a = analysis::analyze(&b, false);
            acc.o3.push((b, a.dis_accepts(), a.ins.len() as u32));
            selftest += 1;
        }
    }
    let mut viol_json = Vec::new();
    for (n, v) in acc.violations.iter().enumerate() {
        let path = format!("{}/replay/{}-{}-{}.json", outdir, id, seed, n);
        let mut r = v.replay.clone();
        r["signature"] = json!(v.signature);
        r["tier"] = json!(tier);
        r["seed"] = json!(seed);
        std::fs::write(&path, serde_json::to_string_pretty(&r).unwrap()).ok();
        viol_json.push(json!({
            "signature": v.signature,
            "message": v.message,
            "replay": path,
        }));
    }
    // o3 dump: [u32 len][bytes][u8 accept][u32 nops]
    let o3_path = format!("{}/o3-{}.bin", outdir, id);
    {
        let mut f = std::io::BufWriter::new(std::fs::File::create(&o3_path).unwrap());
        for (b, ok, n) in &acc.o3 {
            f.write_all(&(b.len() as u32).to_le_bytes()).unwrap();
            f.write_all(b).unwrap();
            f.write_all(&[*ok as u8]).unwrap();
            f.write_all(&n.to_le_bytes()).unwrap();
        }
    }
    let mut coverage = json!({
        "evaluations": acc.evaluations,
        "distinct_nontrivial": acc.nontrivial.len(),
        "distinct_outputs": acc.distinct.len(),
        "rule": out.rule,
        "samples": acc.samples,
        "counters": acc.counters,
    });
    if let Some(e) = out.exhaustive {
        coverage["exhaustive"] = json!(e);
    }
    if let Value::Object(m) = out.extra {
        for (k, v) in m {
            coverage[k] = v;
        }
    }
    let result = json!({
        "property_id": id,
        "tier": tier,
        "seed": seed,
        "level": "exploration",
        "coverage": coverage,
        "assumptions": out.assumptions,
        "wall_s": wall,
        "violations": acc.violations.len() as u64 + acc.get("violations_dropped_over_cap"),
        "violations_detail": viol_json,
        "inconclusive": acc.inconclusive,
        "o3_file": o3_path,
        "o3_queued": acc.o3.len(),
        "o3_selftest_streams": selftest,
    });
    std::fs::write(
        format!("{}/result-{}.json", outdir, id),
        serde_json::to_string_pretty(&result).unwrap(),
    )
    .unwrap();
    if !acc.violations.is_empty() {
        1
    } else if !acc.inconclusive.is_empty() {
        2
    } else {
        0
    }
}

fn main() {
    let args: Vec<String> = std::env::args().collect();
    if args.len() < 2 {
        eprintln!("usage: pfv check|replay|libgen|child ...");
        std::process::exit(64);
    }
    match args[1].as_str() {
        "check" => {
            let id = args[2].as_str();
            let tier = args[3].as_str();
            let seed: u64 = args[4].parse().expect("seed");
            let outdir = args[5].as_str();
            let thorough = tier == "thorough";
            std::env::set_var("PFV_TIER", tier);
            watch::init(id, tier, seed, outdir);
            quiet_panics();
            let t0 = Instant::now();
            let out = match id {
                "C01" => mon_bytes_run::c01(thorough, seed),
                "C02" => mon_bytes_run::c02(thorough, seed),
                "C04" => mon_bytes_run::c04(thorough, seed),
                "C05" => mon_bytes_run::c05(thorough, seed),
                "C06" => mon_bytes_run::c06(thorough, seed),
                "C10" => mon_bytes_run::c10(thorough, seed),
                "C12" => mon_bytes_run::c12(thorough, seed),
                "C03" => mon_trace::c03(thorough, seed),
                "C11" => mon_trace::c11(thorough, seed),
                "C15" => mon_trace::c15(thorough, seed),
                "C17" => mon_trace::c17(thorough, seed),
                "C16" => mon_api::c16(thorough, seed),
                "C18" => mon_api::c18(thorough, seed),
                "C07" => mon_hist::c07(thorough, seed),
                "C08" => mon_hist::c08(thorough, seed),
                "C09" => mon_hist::c09(thorough, seed),
                "C14" => mon_hist::c14(thorough, seed),
                other => {
                    eprintln!("pfv: no in-process monitor for {}", other);
                    std::process::exit(64);
                }
            };
            let wall = t0.elapsed().as_secs_f64();
            let code = write_result(id, tier, seed, outdir, out, wall);
            std::process::exit(code);
        }
        "replay" => {
            quiet_panics();
            let code = mon_hist::replay(&args[2]);
            std::process::exit(code);
        }
        "libgen" => {
            // config JSON on argv[2] (file) -> one hex line per requested generation
            let text = std::fs::read_to_string(&args[2]).expect("config file");
            let v: Value = serde_json::from_str(&text).expect("json");
            let cfgs: Vec<Value> = match v {
                Value::Array(a) => a,
                other => vec![other],
            };
            let stdout = std::io::stdout();
            let mut o = stdout.lock();
            for c in cfgs {
                let cfg = Config::from_json(&c);
                let r = run_case(&cfg, None);
                match r.outcome {
                    Outcome::Ok(b) => writeln!(o, "ok {}", hex(&b)).unwrap(),
                    Outcome::Err(e) => writeln!(o, "err {}", e.replace('\n', " ")).unwrap(),
                    Outcome::Panic(e) => writeln!(o, "panic {}", e.replace('\n', " ")).unwrap(),
                }
            }
        }
        "giant" => {
            // helper process of common::giant_input: steer the giant warm-up inputs and print them
            for p in 0..6u8 {
                for k in 0..2usize {
                    let (b, steps) = giant_input(p, k);
                    println!("{} {}", steps, hex(b));
                }
            }
        }
        "deep" => {
            // debug: pfv deep <proto> <x-hex> <y-hex> <steps>: greedy long steering, opcode histogram
            let proto: u8 = args[2].parse().unwrap();
            let x = u8::from_str_radix(&args[3], 16).unwrap();
            let y = u8::from_str_radix(&args[4], 16).unwrap();
            let t: usize = args[5].parse().unwrap();
            let base = Config::default_for(proto, Entropy::Bytes(vec![]));
            let st = workload::steer_long(&base, t, false, 48, workload::greedy_policy(x, y));
            println!("matched={} runs={} complete={}", st.matched, st.runs, st.complete);
            let r = run_case(&st.cfg, Some(pickle_fuzzer::verif::Config { snapshots: false, choices: false, step_limit: 0 }));
            let (mut body, mut tail) = (0usize, 0usize);
            for e in &r.events {
                if let pickle_fuzzer::verif::Event::Step { phase, .. } = e {
                    match phase {
                        pickle_fuzzer::verif::Phase::Body => body += 1,
                        pickle_fuzzer::verif::Phase::Tail => tail += 1,
                        _ => {}
                    }
                }
            }
            println!("body_steps={} tail_steps={}", body, tail);
            if let Outcome::Ok(b) = &r.outcome {
                let mut h = std::collections::BTreeMap::new();
                if let Ok(lx) = lexer::lex(b) {
                    for i in &lx.ins {
                        *h.entry(i.op.name).or_insert(0usize) += 1;
                    }
                }
                println!("bytes={} {:?}", b.len(), h);
            } else {
                println!("outcome not ok");
            }
        }
        "analyze" => {
            // debug: analyze a hex pickle with O1/O2 and print the verdict
            let b = if let Some(p) = args[2].strip_prefix("@") {
                unhex(&std::fs::read_to_string(p).expect("hex file"))
            } else {
                unhex(&args[2])
            };
            let a = analysis::analyze(&b, true);
            println!("lex_err={:?}", a.lex_err.as_ref().map(|e| e.to_string()));
            println!("ops={} trailing={}", a.ins.len(), a.trailing);
            println!("vm_err={:?}", a.vm_err.as_ref().map(|e| e.to_string()));
            println!("memo_errs={:?}", a.memo_errs.iter().map(|e| e.to_string()).collect::<Vec<_>>());
            println!("findings={:?}", a.findings.iter().map(|(i, f)| format!("#{} {} {}", i, f.opcode, f.msg)).collect::<Vec<_>>());
            if args.len() > 3 {
                for i in &a.ins {
                    println!("{:5} {} {:?}", i.pos, i.op.name, i.arg);
                }
            }
        }
        "selftest" => {
            // pfv selftest <seed> <n> <file>: random opcode streams + O1/O2 verdicts for dis_oracle.py
            let seed: u64 = args[2].parse().unwrap();
            let n: usize = args[3].parse().unwrap();
            let mut rng = Rng::new(seed);
            let mut f = std::io::BufWriter::new(std::fs::File::create(&args[4]).unwrap());
            for _ in 0..n {
                let b = workload::random_stream(&mut rng);
                let a = analysis::analyze(&b, false);
                f.write_all(&(b.len() as u32).to_le_bytes()).unwrap();
                f.write_all(&b).unwrap();
                f.write_all(&[a.dis_accepts() as u8]).unwrap();
                f.write_all(&(a.ins.len() as u32).to_le_bytes()).unwrap();
            }
        }
        "child" => {
            let code = mon_hist::child_main(&args[2..]);
            std::process::exit(code);
        }
        other => {
            eprintln!("unknown subcommand {}", other);
            std::process::exit(64);
        }
    }
}

/// bulk matrix drivers for the byte-level monitors
mod mon_bytes_run {
    use super::*;
    use crate::mon_bytes::*;
    use crate::workload::*;
    use pickle_fuzzer::verif;

    fn bulk<F>(n: usize, seed: u64, sp: &Space, trace: Option<verif::Config>, check: F) -> Acc
    where
        F: Fn(&Config, &CaseResult, &mut Acc) + Sync,
    {
        par_run(
            n,
            Acc::new,
            |i, acc| {
                let cfg = matrix_case(i, seed, sp);
                let res = run_case(&cfg, trace);
                check(&cfg, &res, acc);
            },
            |a, b| a.merge(b),
        )
    }

    /// Front-end layer shared by the byte-level checks: unseeded batch runs of the built CLI for a
    /// set of flag combinations; every written file goes through the same monitor as library
    /// output, judged under the configuration the command line asked for.
    fn cli_layer<F>(acc: &mut Acc, thorough: bool, with_unsafe: bool, check: F)
    where
        F: Fn(&Config, &CaseResult, &mut Acc) + Sync,
    {
        if std::env::var("PFV_CLI").is_err() {
            acc.count("cli_layer_skipped_no_PFV_CLI", 1);
            return;
        }
        let samples = if thorough { 200 } else { 30 };
        // (mutators, rate, unsafe)
        let mut mut_sets: Vec<(Vec<Mk>, &str, bool)> = vec![
            (vec![], "0.1", false),
            (vec![Mk::Offbyone, Mk::Memoindex], "1.0", false),
            (ALL_MK.iter().copied().filter(|m| *m != Mk::Memoindex).collect(), "0.5", false),
        ];
        if with_unsafe {
            mut_sets.push((ALL_MK.to_vec(), "0.5", true));
        }
        let mut jobs: Vec<(u8, bool, bool, usize)> = Vec::new();
        for proto in 0..6u8 {
            for (e, b) in [(false, false), (true, false), (false, true), (true, true)] {
                for k in 0..mut_sets.len() {
                    if (proto as usize + k + e as usize + 2 * b as usize) % 2 == 0 || thorough {
                        jobs.push((proto, e, b, k));
                    }
                }
            }
        }
        let jobs_ref = &jobs;
        let sets_ref = &mut_sets;
        let fe = par_run(
            jobs.len(),
            Acc::new,
            |i, acc| {
                let (proto, e, b, k) = jobs_ref[i];
                let (muts, rate, uns) = &sets_ref[k];
                let mut args: Vec<String> = vec!["--protocol".into(), proto.to_string(), "--mutation-rate".into(), rate.to_string()];
                if e {
                    args.push("--allow-ext".into());
                }
                if b {
                    args.push("--allow-buffer".into());
                }
                if *uns {
                    args.push("--unsafe-mutations".into());
                }
                if !muts.is_empty() {
                    args.push("--mutators".into());
                    args.extend(muts.iter().map(|m| m.name().to_string()));
                }
                // a third of the jobs also go through the action wrapper's discrete inputs
                let via_wrapper = if i % 3 == 0 {
                    let mut inputs: Vec<(&str, String)> = vec![("INPUT_PROTOCOL", proto.to_string()), ("INPUT_MUTATION_RATE", rate.to_string())];
                    inputs.push(("INPUT_ALLOW_EXT", if e { "true" } else { "false" }.to_string()));
                    inputs.push(("INPUT_ALLOW_BUFFER", if b { "yes" } else { "no" }.to_string()));
                    inputs.push(("INPUT_UNSAFE_MUTATIONS", if *uns { "1" } else { "0" }.to_string()));
                    if !muts.is_empty() {
                        inputs.push(("INPUT_MUTATORS", muts.iter().map(|m| m.name()).collect::<Vec<_>>().join(",")));
                    }
                    match action_batch(&inputs, samples / 3 + 1) {
                        Ok(f) => f,
                        Err(m) => {
                            acc.inconclusive.push(format!("action wrapper run failed in the front-end layer: {}", m));
                            Vec::new()
                        }
                    }
                } else {
                    Vec::new()
                };
                let n_wrapper = via_wrapper.len();
                match cli_batch(&args, samples, &[]).map(|mut f| {
                    f.splice(0..0, via_wrapper);
                    f
                }) {
                    Err(m) => acc.inconclusive.push(format!("CLI batch run failed in the front-end layer: {}", m)),
                    Ok(files) => {
                        let cfg = Config {
                            mutators: muts.clone(),
                            rate: rate.parse().unwrap_or(0.1),
                            unsafe_mut: *uns,
                            ext: e,
                            buf: b,
                            ..Config::default_for(proto, Entropy::Seed(0))
                        };
                        for (fi, bytes) in files.into_iter().enumerate() {
                            let before = acc.violations.len();
                            let res = CaseResult { outcome: Outcome::Ok(bytes), events: vec![] };
                            check(&cfg, &res, acc);
                            let wrapper = fi < n_wrapper;
                            for v in acc.violations.iter_mut().skip(before) {
                                if wrapper {
                                    v.message = format!("[file written through scripts/action-run.sh for the same options as: {}] {}", args.join(" "), v.message);
                                    v.signature = format!("{}:via_wrapper", v.signature);
                                } else {
                                    v.message = format!("[file written by the CLI: pickle-fuzzer --dir D {}] {}", args.join(" "), v.message);
                                    v.signature = format!("{}:via_cli", v.signature);
                                }
                            }
                            acc.count(if wrapper { "wrapper_files_checked" } else { "cli_files_checked" }, 1);
                        }
                    }
                }
            },
            |a, b| a.merge(b),
        );
        acc.merge(fe);
        if acc.get("cli_files_checked") < 200 {
            acc.inconclusive.push("too few CLI-written files checked".into());
        }
    }

    fn std_assumptions() -> Vec<String> {
        vec![
            "O1/O2 (lexer, reference machine) are written independently of src/ and cross-checked against CPython pickletools on a sample of this run".into(),
            "verdict is about the executions of this run only".into(),
        ]
    }

    pub fn c01(thorough: bool, seed: u64) -> CheckOutput {
        let n = if thorough { 3_000_000 } else { 150_000 };
        let sp = Space::safe();
        let t0 = Instant::now();
        // W6 large pickles run on their own threads alongside the matrix (they take 10-20 s each)
        let big: Vec<(u8, u64, usize)> = if thorough {
            (0..12).map(|k| ((k % 6) as u8, seed.wrapping_add(k as u64), 50_000 + 2_000 * (k as usize % 4))).collect()
        } else {
            vec![(2, seed, 50_000), (4, seed + 1, 52_000)]
        };
        let big_handles: Vec<_> = big
            .iter()
            .map(|&(p, s, t)| {
                std::thread::spawn(move || {
                    let mut acc = Acc::new();
                    let cfg = Config {
                        min: t,
                        max: t,
                        ..Config::default_for(p, Entropy::Seed(s))
                    };
                    let res = run_case(&cfg, None);
                    check_c01(&cfg, &res, &mut acc);
                    acc.count("large_pickles_50k_plus_opcodes", 1);
                    acc
                })
            })
            .collect();
        let mut acc = bulk(n, seed, &sp, None, check_c01);
        // a block of 3000+ opcode pickles
        let long = par_run(
            n / 100,
            Acc::new,
            |i, acc| {
                let mut cfg = matrix_case(i, seed ^ 0x3000, &sp);
                cfg.min = 3000;
                cfg.max = 3300;
                let res = run_case(&cfg, None);
                check_c01(&cfg, &res, acc);
            },
            |a, b| a.merge(b),
        );
        acc.merge(long);
        // decision-tree exploration (W4): every opcode sequence up to depth k, flags on
        let (ex_depth, max_depth, budget) = if thorough { (4, 16, 60_000_000) } else { (2, 9, 1_200_000) };
        let mut explore_json = vec![];
        for proto in 0..6u8 {
            for filler_kind in [0u8, 2u8] {
                let base = Config {
                    ext: true,
                    buf: true,
                    ..Config::default_for(proto, Entropy::Bytes(vec![]))
                };
                let st = explore(&base, filler_kind, ex_depth, max_depth, budget / 12, &mut acc, &check_c01);
                explore_json.push(json!({"proto": proto, "filler": filler_kind, "runs": st.runs,
                    "levels": st.levels, "abstract_states": st.abstract_states, "max_depth": st.max_depth}));
            }
        }
        // W5: recipe-steered object-heavy and alias-heavy pickles (typed opcodes, DUP aliases)
        let st = crate::mon_trace::steered_block(if thorough { 40_000 } else { 4_000 }, seed, true, &check_c01);
        acc.merge(st);
        // deep-state block: one opcode greedily for thousands of steps
        let deep_sizes: Vec<usize> = if thorough { vec![4200, 11_000, 20_500] } else { vec![4200, 20_500] };
        let deep = crate::mon_trace::deep_block(if thorough { 1500 } else { 150 }, seed, pickle_fuzzer::verif::Config { snapshots: false, choices: false, step_limit: 0 }, &deep_sizes, &check_c01);
        acc.merge(deep);
        let ie = crate::mon_trace::int_edge_block(if thorough { 30_000 } else { 3_000 }, seed, &check_c01);
        acc.merge(ie);
        cli_layer(&mut acc, thorough, false, check_c01);
        for h in big_handles {
            match h.join() {
                Ok(a) => acc.merge(a),
                Err(_) => acc.inconclusive.push("large-pickle worker thread panicked".into()),
            }
        }
        if acc.get("mark_consuming_opcodes") < 1000 {
            acc.inconclusive.push("too few MARK-consuming opcodes observed".into());
        }
        CheckOutput {
            acc,
            rule: "cases = safe configuration matrix (all 128 mutator subsets x 6 protocols enumerated; range, rate, opt-in flags, entropy mode and entropy drawn per case) + every opcode-choice sequence up to the exhaustive depth (fuzzer-bytes steering) + large pickles; distinct = distinct output bytes; non-trivial = output executes at least one MARK-consuming opcode or more than two operand-consuming opcodes on the reference machine".into(),
            extra: json!({"decision_tree": explore_json}),
            assumptions: std_assumptions(),
            exhaustive: None,
        }
    }

    pub fn c02(thorough: bool, seed: u64) -> CheckOutput {
        let n = if thorough { 600_000 } else { 60_000 };
        let sp = Space::safe();
        let mut acc = bulk(n, seed, &sp, None, check_c02);
        // memo-heavy: long pickles, index mutators at rate 1.0 / 0.5
        let n_long = if thorough { 4000 } else { 480 };
        let long = par_run(
            n_long,
            Acc::new,
            |i, acc| {
                let mut rng = Rng::new(mix(seed ^ 0xC02, i as u64));
                let proto = (i % 6) as u8;
                let muts = match (i / 6) % 4 {
                    0 => vec![],
                    1 => vec![Mk::Offbyone],
                    2 => vec![Mk::Memoindex],
                    _ => vec![Mk::Memoindex, Mk::Offbyone],
                };
                let rate = if (i / 24) % 2 == 0 { 1.0 } else { 0.5 };
                let entropy = if rng.below(3) == 0 {
                    {
                    let n = 20_000 + rng.below(20_000) as usize;
                    Entropy::Bytes(rng.bytes(n))
                }
                } else {
                    Entropy::Seed(rng.next())
                };
                let cfg = Config {
                    min: 3000,
                    max: 6000,
                    mutators: muts,
                    rate,
                    ..Config::default_for(proto, entropy)
                };
                let res = run_case(&cfg, None);
                check_c02(&cfg, &res, acc);
                acc.count("long_memo_heavy_cases", 1);
            },
            |a, b| a.merge(b),
        );
        acc.merge(long);
        // recipe-steered block (memo aliases, one object stored twice, stores through GET copies)
        let st = crate::mon_trace::steered_block(if thorough { 40_000 } else { 4_000 }, seed, true, &check_c02);
        acc.merge(st);
        // deep-state block: one opcode greedily for thousands of steps
        let deep_sizes: Vec<usize> = if thorough { vec![4200, 11_000, 20_500, 40_000] } else { vec![4200, 20_500] };
        let deep = crate::mon_trace::deep_block(if thorough { 1500 } else { 150 }, seed, pickle_fuzzer::verif::Config { snapshots: false, choices: false, step_limit: 0 }, &deep_sizes, &check_c02);
        acc.merge(deep);
        cli_layer(&mut acc, thorough, false, check_c02);
        if acc.get("GET_family_executed") < 1000 || acc.get("PUT_family_executed") < 1000 {
            acc.inconclusive.push("too few memo opcodes observed".into());
        }
        if acc.get("pickles_with_more_than_256_memo_entries") < 1 {
            acc.inconclusive.push("no pickle with more than 256 memo entries observed".into());
        }
        CheckOutput {
            acc,
            rule: "cases = safe configuration matrix + long (3000..6000 opcode) pickles with OffByOne / MemoIndex(safe) at rate 1.0 and 0.5; distinct = distinct output bytes; non-trivial = output contains at least one GET-family and one PUT-family opcode".into(),
            extra: json!({}),
            assumptions: std_assumptions(),
            exhaustive: None,
        }
    }

    pub fn c04(thorough: bool, seed: u64) -> CheckOutput {
        let n = if thorough { 4_000_000 } else { 250_000 };
        let mut sp = Space::full();
        sp.rates = vec![0.1, 0.5, 1.0, 1.0];
        let mut acc = bulk(n, seed, &sp, None, check_c04);
        // EXT-heavy block (EXT4 sign bit) and string-mutator block at rate 1
        let n2 = if thorough { 400_000 } else { 40_000 };
        let sp2 = Space {
            ext: Some(true),
            rates: vec![1.0],
            ranges: vec![(60, 300), (10, 50)],
            ..Space::full()
        };
        let acc2 = bulk(n2, seed ^ 0xE474, &sp2, None, check_c04);
        acc.merge(acc2);
        // deep-state block: one opcode greedily for thousands of steps
        let deep_sizes: Vec<usize> = if thorough { vec![4200, 20_500, 40_000] } else { vec![4200, 20_500] };
        let deep = crate::mon_trace::deep_block(if thorough { 1500 } else { 150 }, seed, pickle_fuzzer::verif::Config { snapshots: false, choices: false, step_limit: 0 }, &deep_sizes, &check_c04);
        acc.merge(deep);
        let ie = crate::mon_trace::int_edge_block(if thorough { 30_000 } else { 3_000 }, seed, &check_c04);
        acc.merge(ie);
        cli_layer(&mut acc, thorough, true, check_c04);
        if acc.get("cases_unsafe") < 1000 {
            acc.inconclusive.push("too few unsafe-mode cases".into());
        }
        CheckOutput {
            acc,
            rule: "cases = full configuration matrix incl. unsafe mutations (all 128 mutator subsets x 6 protocols enumerated) + EXT-enabled rate-1.0 block; distinct = distinct output bytes; non-trivial = output has at least three opcodes that carry an argument".into(),
            extra: json!({}),
            assumptions: std_assumptions(),
            exhaustive: None,
        }
    }

    pub fn c05(thorough: bool, seed: u64) -> CheckOutput {
        let n = if thorough { 2_000_000 } else { 150_000 };
        let mut sp = Space::safe();
        sp.ranges.extend_from_slice(&[(2, 2), (3, 3), (4, 4), (5, 5), (6, 6)]);
        let mut acc = bulk(n, seed, &sp, None, check_c05);
        // deep-state block: one opcode greedily for thousands of steps
        let deep_sizes: Vec<usize> = if thorough { vec![4200, 11_000, 20_500] } else { vec![4200, 20_500] };
        let deep = crate::mon_trace::deep_block(if thorough { 1500 } else { 150 }, seed, pickle_fuzzer::verif::Config { snapshots: false, choices: false, step_limit: 0 }, &deep_sizes, &check_c05);
        acc.merge(deep);
        let ie = crate::mon_trace::int_edge_block(if thorough { 30_000 } else { 3_000 }, seed, &check_c05);
        acc.merge(ie);
        cli_layer(&mut acc, thorough, false, check_c05);
        for p in 0..6 {
            if acc.get(&format!("pickles_P{}", p)) < 100 {
                acc.inconclusive.push(format!("too few protocol {} pickles", p));
            }
        }
        // long pickles of every protocol (memo beyond 256 entries, thousands of collapse items)
        let (n_big, t_big) = if thorough { (24, 20_000) } else { (12, 6_000) };
        let big = par_run(
            n_big,
            Acc::new,
            |i, acc| {
                let cfg = Config {
                    min: t_big,
                    max: t_big,
                    ..Config::default_for((i % 6) as u8, Entropy::Seed(seed.wrapping_add(i as u64)))
                };
                let res = run_case(&cfg, None);
                check_c05(&cfg, &res, acc);
                acc.count("long_pickles", 1);
            },
            |a, b| a.merge(b),
        );
        acc.merge(big);
        CheckOutput {
            acc,
            rule: "cases = safe configuration matrix with extra tiny ranges (so that the collapse phase sees 0,1,2,3+ items) + large pickles; distinct = distinct output bytes; non-trivial = at least four decoded opcodes".into(),
            extra: json!({}),
            assumptions: std_assumptions(),
            exhaustive: None,
        }
    }

    pub fn c06(thorough: bool, seed: u64) -> CheckOutput {
        let n = if thorough { 2_000_000 } else { 150_000 };
        let sp = Space::full();
        let tr = verif::Config {
            snapshots: false,
            choices: false,
            step_limit: 0,
        };
        let mut acc = bulk(n, seed, &sp, Some(tr), check_c06);
        // unsafe typeconfusion at rate 1: post-emission truncation on every value opcode
        let sp2 = Space {
            force_unsafe: Some(true),
            rates: vec![1.0, 0.5],
            ..Space::full()
        };
        let n2 = if thorough { 400_000 } else { 40_000 };
        let acc2 = par_run(
            n2,
            Acc::new,
            |i, acc| {
                let mut cfg = matrix_case(i, seed ^ 0xF6, &sp2);
                cfg.proto = 4 + (i % 2) as u8;
                if !cfg.mutators.contains(&Mk::Typeconfusion) {
                    cfg.mutators.insert(0, Mk::Typeconfusion);
                }
                let res = run_case(&cfg, Some(tr));
                check_c06(&cfg, &res, acc);
            },
            |a, b| a.merge(b),
        );
        acc.merge(acc2);
        // the CLI writes pickles to files: the FRAME rule must hold for the bytes on disk too, also
        // when the destination already holds a longer file from an earlier run
        if std::env::var("PFV_CLI").is_ok() {
            use std::sync::atomic::{AtomicUsize, Ordering};
            static DIRS: AtomicUsize = AtomicUsize::new(0);
            let cli = std::env::var("PFV_CLI").unwrap();
            let fe = par_run(
                if thorough { 48 } else { 12 },
                Acc::new,
                |i, acc| {
                    let proto = 4 + (i % 2) as u8;
                    let d = std::env::temp_dir().join(format!("pfv-c06-{}-{}", std::process::id(), DIRS.fetch_add(1, Ordering::Relaxed)));
                    let _ = std::fs::remove_dir_all(&d);
                    let run = |extra: &[&str]| {
                        std::process::Command::new(&cli)
                            .arg("--dir")
                            .arg(&d)
                            .args(["--samples", "12", "--protocol", &proto.to_string()])
                            .args(extra)
                            .output()
                    };
                    // first a run with long pickles, then one with short pickles into the same directory
                    let r1 = run(&["--min-opcodes", "200", "--max-opcodes", "300"]);
                    let r2 = if i % 3 == 0 { run(&["--min-opcodes", "5", "--max-opcodes", "10", "--unsafe-mutations", "--mutators", "all"]) } else { run(&["--min-opcodes", "5", "--max-opcodes", "10"]) };
                    if !matches!((&r1, &r2), (Ok(a), Ok(b)) if a.status.success() && b.status.success()) {
                        acc.inconclusive.push("CLI batch run failed in the C06 overwrite layer".into());
                    }
                    if let Ok(rd) = std::fs::read_dir(&d) {
                        for e in rd.flatten() {
                            let bytes = std::fs::read(e.path()).unwrap_or_default();
                            let cfg = Config {
                                min: 5,
                                max: 10,
                                ..Config::default_for(proto, Entropy::Seed(0))
                            };
                            let res = CaseResult { outcome: Outcome::Ok(bytes), events: vec![] };
                            let before = acc.violations.len();
                            check_c06(&cfg, &res, acc);
                            // trailing bytes after STOP also mean "something follows the frame"
                            if let Outcome::Ok(b) = &res.outcome {
                                if let Ok(l) = crate::lexer::lex(b) {
                                    if l.end != b.len() && acc.violations.len() == before {
                                        let msg = format!("file written by the CLI has {} bytes after STOP (protocol {})", b.len() - l.end, proto);
                                        acc.violate(Violation {
                                            property: "C06".into(),
                                            signature: format!("C06:cli_file:trailing:P{}", proto),
                                            message: msg.clone(),
                                            replay: json!({"kind": "c06-cli", "property": "C06", "protocol": proto, "message": msg,
                                                "history": "batch run with 200..300 opcodes, then 5..10 opcodes into the same --dir"}),
                                        });
                                    }
                                }
                            }
                            for v in acc.violations.iter_mut().skip(before) {
                                if !v.signature.starts_with("C06:cli_file:") {
                                    v.signature = v.signature.replace("C06:", "C06:cli_file:");
                                }
                                v.message = format!("[file written by the CLI into a directory that already held longer files] {}", v.message);
                            }
                            acc.count("cli_files_checked", 1);
                        }
                    }
                    let _ = std::fs::remove_dir_all(&d);
                },
                |a, b| a.merge(b),
            );
            acc.merge(fe);
            if acc.get("cli_files_checked") < 100 {
                acc.inconclusive.push("too few CLI-written files checked".into());
            }
            // write faults that hit a sample after some bytes were written (file-size limit of 1 KiB,
            // SIGXFSZ ignored, pickles of 200+ opcodes): if the tool nevertheless reports success,
            // what it left behind are its samples, and a framed sample cut short breaks the rule
            for (k, samples) in [3usize, 8, 10, 12].iter().enumerate() {
                let proto = 4 + (k % 2) as u8;
                let d = std::env::temp_dir().join(format!("pfv-c06-fault-{}-{}", std::process::id(), k));
                let _ = std::fs::remove_dir_all(&d);
                let out = std::process::Command::new("bash")
                    .arg("-c")
                    .arg("ulimit -f 1; trap '' XFSZ; exec \"$@\"")
                    .arg("_")
                    .arg(&cli)
                    .arg("--dir")
                    .arg(&d)
                    .args(["--samples", &samples.to_string(), "--protocol", &proto.to_string(), "--seed", "0", "--min-opcodes", "200", "--max-opcodes", "300"])
                    .output();
                acc.evaluations += 1;
                acc.count("cli_write_fault_runs", 1);
                if let Ok(o) = out {
                    if o.status.success() {
                        acc.count("cli_write_fault_runs_reporting_success", 1);
                        if let Ok(rd) = std::fs::read_dir(&d) {
                            for e in rd.flatten() {
                                let b = std::fs::read(e.path()).unwrap_or_default();
                                let complete = matches!(crate::lexer::lex(&b), Ok(l) if l.end == b.len());
                                if !complete {
                                    let msg = format!(
                                        "the CLI reported success (exit 0) for --samples {} --protocol {} under a 1 KiB file-size limit, but {} is a {}-byte fragment: its FRAME (if any) announces more than follows and there is no STOP",
                                        samples,
                                        proto,
                                        e.file_name().to_string_lossy(),
                                        b.len()
                                    );
                                    acc.violate(Violation {
                                        property: "C06".into(),
                                        signature: format!("C06:cli_file:fragment_in_successful_run:P{}", proto),
                                        message: msg.clone(),
                                        replay: json!({"kind": "c06-cli", "property": "C06", "protocol": proto, "message": msg,
                                            "history": "bash -c 'ulimit -f 1; trap \"\" XFSZ; exec pickle-fuzzer --dir D --samples N --protocol P --seed 0 --min-opcodes 200 --max-opcodes 300'"}),
                                    });
                                    break;
                                }
                            }
                        }
                    }
                }
                let _ = std::fs::remove_dir_all(&d);
            }
        }
        if acc.get("framed_pickles") < 1000 {
            acc.inconclusive.push("too few framed pickles observed".into());
        }
        if acc.get("post_emission_rewrites_observed") < 1000 {
            acc.inconclusive.push("too few post-emission rewrites observed".into());
        }
        CheckOutput {
            acc,
            rule: "cases = full configuration matrix incl. unsafe + a protocol 4/5 block with unsafe TypeConfusion at rate 1.0/0.5 (post-emission rewrites); distinct = distinct output bytes; non-trivial = output contains a FRAME opcode".into(),
            extra: json!({}),
            assumptions: std_assumptions(),
            exhaustive: None,
        }
    }

    pub fn c10(thorough: bool, seed: u64) -> CheckOutput {
        let n = if thorough { 2_000_000 } else { 150_000 };
        let sp = Space::full();
        let mut acc = bulk(n, seed, &sp, None, check_c10);
        // front ends: the CLI flags (single source of the two opt-ins for command-line users) and the
        // action wrapper's INPUT_ALLOW_* switches, unseeded batch runs, outputs lexed
        if std::env::var("PFV_CLI").is_ok() {
            let samples = if thorough { 400 } else { 60 };
            let combos: Vec<(bool, bool)> = vec![(false, false), (true, false), (false, true), (true, true)];
            let mut jobs: Vec<(u8, bool, bool, bool, bool)> = Vec::new(); // proto, ext, buf, mutators, via wrapper
            for proto in [2u8, 3, 4, 5] {
                for &(e, b) in &combos {
                    jobs.push((proto, e, b, false, false));
                    jobs.push((proto, e, b, true, false));
                    if proto == 5 || proto == 2 {
                        jobs.push((proto, e, b, false, true));
                    }
                }
            }
            // spellings that say "off" in every reading (the wrapper documents true / false)
            const FALSY: [&str; 20] = [
                "false", "FALSE", "False", "0", "no", "No", "NO", "off", "OFF", "Off", "none", "None", "NONE", "null", "disabled", "n", "f", "nope", "untrue", "-",
            ];
            // every falsy spelling on both switches at protocol 5 (where all five opt-in opcodes exist)
            for k in 0..FALSY.len() {
                jobs.push((5, false, false, k % 2 == 0, true));
            }
            let n_plain = jobs.len() - FALSY.len();
            // sparse environments: switches that are not exported at all (the script supports that
            // with ${INPUT_X:-}); (unsafe, ext, buf) as Some(value) / None = absent
            let sparse: Vec<(Option<&str>, Option<&str>, Option<&str>)> = vec![
                (Some("true"), None, None),
                (None, Some("true"), None),
                (Some("yes"), Some("false"), None),
                (Some("1"), None, Some("false")),
                (None, None, None),
                (Some("false"), None, None),
                (None, None, Some("TRUE")),
            ];
            let sparse_ref = &sparse;
            let sp_acc = par_run(
                sparse.len(),
                Acc::new,
                |i, acc| {
                    let (u, e, b) = sparse_ref[i];
                    let mut inputs: Vec<(&str, String)> = vec![("INPUT_PROTOCOL", "5".to_string()), ("INPUT_MUTATORS", "bitflip".to_string())];
                    if let Some(v) = u {
                        inputs.push(("INPUT_UNSAFE_MUTATIONS", v.to_string()));
                    }
                    if let Some(v) = e {
                        inputs.push(("INPUT_ALLOW_EXT", v.to_string()));
                    }
                    if let Some(v) = b {
                        inputs.push(("INPUT_ALLOW_BUFFER", v.to_string()));
                    }
                    let truthy = |x: Option<&str>| matches!(x, Some("true") | Some("TRUE") | Some("yes") | Some("1"));
                    let (e_on, b_on) = (truthy(e), truthy(b));
                    match action_batch(&inputs, samples / 3 + 1) {
                        Err(m) => acc.inconclusive.push(format!("action wrapper run failed (sparse environment): {}", m)),
                        Ok(files) => {
                            acc.count("wrapper_sparse_environment_runs", 1);
                            'files: for bytes in &files {
                                acc.evaluations += 1;
                                for ins in crate::lexer::lex_lenient(bytes) {
                                    let is_ext = matches!(ins.op.name, "EXT1" | "EXT2" | "EXT4");
                                    let is_buf = matches!(ins.op.name, "NEXT_BUFFER" | "READONLY_BUFFER");
                                    if (is_ext && !e_on) || (is_buf && !b_on) {
                                        let msg = format!(
                                            "action wrapper output for protocol 5 contains {} although the inputs were unsafe_mutations={:?} allow_ext={:?} allow_buffer={:?} (None = not exported)",
                                            ins.op.name, u, e, b
                                        );
                                        acc.violate(Violation {
                                            property: "C10".into(),
                                            signature: format!("C10:wrapper_sparse:{}:P5", ins.op.name),
                                            message: msg.clone(),
                                            replay: json!({"kind": "c10-cli", "property": "C10", "frontend": "scripts/action-run.sh", "message": msg}),
                                        });
                                        break 'files;
                                    }
                                }
                            }
                        }
                    }
                },
                |a, b| a.merge(b),
            );
            let jobs_ref = &jobs;
            let fe = par_run(
                jobs.len(),
                Acc::new,
                |i, acc| {
                    let (proto, e, b, muts, wrapper) = jobs_ref[i];
                    let files = if wrapper {
                        let truth = ["true", "1", "yes", "TRUE"][i % 4];
                        let off = if i >= n_plain { FALSY[i - n_plain] } else { FALSY[i % FALSY.len()] };
                        let mut inputs: Vec<(&str, String)> = vec![("INPUT_PROTOCOL", proto.to_string())];
                        inputs.push(("INPUT_ALLOW_EXT", if e { truth.to_string() } else { off.to_string() }));
                        inputs.push(("INPUT_ALLOW_BUFFER", if b { truth.to_string() } else { off.to_string() }));
                        if i >= n_plain {
                            acc.count("wrapper_falsy_spellings_tried", 1);
                        }
                        action_batch(&inputs, if i >= n_plain { samples / 3 } else { samples })
                    } else {
                        let mut args: Vec<String> = vec!["--protocol".into(), proto.to_string()];
                        if e {
                            args.push("--allow-ext".into());
                        }
                        if b {
                            args.push("--allow-buffer".into());
                        }
                        if muts {
                            args.extend(["--unsafe-mutations", "--mutation-rate", "0.5", "--mutators", "all"].iter().map(|s| s.to_string()));
                        }
                        cli_batch(&args, samples, &[])
                    };
                    let fe_name = if wrapper { "action wrapper" } else { "CLI" };
                    match files {
                        Err(m) => acc.inconclusive.push(format!("{} batch run failed: {}", fe_name, m)),
                        Ok(files) => {
                            for bytes in &files {
                                acc.evaluations += 1;
                                let ins_list = match crate::lexer::lex(bytes) {
                                    Ok(l) => l.ins,
                                    Err(_) => crate::lexer::lex_lenient(bytes),
                                };
                                acc.count(if wrapper { "wrapper_files_scanned" } else { "cli_files_scanned" }, 1);
                                for ins in &ins_list {
                                    let is_ext = matches!(ins.op.name, "EXT1" | "EXT2" | "EXT4");
                                    let is_buf = matches!(ins.op.name, "NEXT_BUFFER" | "READONLY_BUFFER");
                                    if is_ext && e {
                                        acc.count("cli_positive_control_ext", 1);
                                    }
                                    if is_buf && b {
                                        acc.count("cli_positive_control_buffer", 1);
                                    }
                                    if (is_ext && !e) || (is_buf && !b) {
                                        let msg = format!(
                                            "{} output for protocol {} contains {} although allow-ext={} allow-buffer={} (mutators: {})",
                                            fe_name, proto, ins.op.name, e, b, muts
                                        );
                                        acc.violate(Violation {
                                            property: "C10".into(),
                                            signature: format!("C10:{}:{}:P{}", if wrapper { "wrapper" } else { "cli" }, ins.op.name, proto),
                                            message: msg.clone(),
                                            replay: json!({"kind": "c10-frontend", "property": "C10", "frontend": fe_name, "protocol": proto,
                                                "allow_ext": e, "allow_buffer": b, "mutators_all_unsafe": muts, "message": msg,
                                                "output_hex": hex(&bytes[..bytes.len().min(4096)])}),
                                        });
                                        break;
                                    }
                                }
                            }
                        }
                    }
                },
                |a, b| a.merge(b),
            );
            acc.merge(fe);
            acc.merge(sp_acc);
            if acc.get("cli_files_scanned") < 100 || acc.get("wrapper_files_scanned") < 100 {
                acc.inconclusive.push("too few front-end outputs scanned".into());
            }
            if acc.get("cli_positive_control_ext") == 0 || acc.get("cli_positive_control_buffer") == 0 {
                acc.inconclusive.push("front-end positive control failed: opt-in opcodes never seen with the flag on".into());
            }
        } else {
            acc.count("frontends_skipped_no_PFV_CLI", 1);
        }
        for k in ["cases_flags_ext0_buf0", "cases_flags_ext1_buf0", "cases_flags_ext0_buf1", "cases_flags_ext1_buf1"] {
            if acc.get(k) < 1000 {
                acc.inconclusive.push(format!("too few {}", k));
            }
        }
        if acc.get("positive_control_ext_on_and_EXT_seen") == 0 || acc.get("positive_control_buffer_on_and_buffer_op_seen") == 0 {
            acc.inconclusive.push("positive control failed: opt-in opcodes never seen with the flag on".into());
        }
        CheckOutput {
            acc,
            rule: "cases = full configuration matrix incl. unsafe, the four opt-in flag combinations drawn uniformly + unseeded batch runs of the built CLI (--allow-ext / --allow-buffer, with and without '--mutators all --unsafe-mutations') and of scripts/action-run.sh (INPUT_ALLOW_EXT / INPUT_ALLOW_BUFFER with the documented truthy spellings) for the four combinations; distinct = distinct output bytes; non-trivial = at least eight decoded opcodes".into(),
            extra: json!({}),
            assumptions: std_assumptions(),
            exhaustive: None,
        }
    }

    pub fn c12(thorough: bool, seed: u64) -> CheckOutput {
        crate::mon_trace::c12(thorough, seed)
    }
}
