//! Monitors that decide on the returned bytes alone (O1 + O2):
//! C01 stack discipline, C02 memo discipline, C04 well-formed stream,
//! C05 protocol compliance, C06 FRAME, C10 opt-in opcodes, C12 reachability.

use serde_json::json;

use crate::analysis::{analyze, Analysis};
use crate::common::*;
use crate::lexer::Arg;

fn replay_case(prop: &str, cfg: &Config, bytes: Option<&[u8]>, msg: &str, witness: serde_json::Value) -> serde_json::Value {
    json!({
        "kind": "case",
        "property": prop,
        "config": cfg.to_json(),
        "message": msg,
        "witness": witness,
        "output_hex": bytes.map(|b| hex(&b[..b.len().min(1 << 16)])),
        "output_len": bytes.map(|b| b.len()),
    })
}

fn cfg_class(cfg: &Config) -> String {
    format!(
        "P{}:{}:{}",
        cfg.proto,
        if cfg.unsafe_mut { "unsafe" } else { "safe" },
        match cfg.entropy {
            Entropy::Seed(_) => "prng",
            Entropy::Bytes(_) => "bytes",
        }
    )
}

/// queue a pickle for the CPython differential cross-check (every k-th + all flagged)
fn o3_queue(acc: &mut Acc, bytes: &[u8], a: &Analysis, flagged: bool, every: u64) {
    if bytes.len() > 200_000 {
        return;
    }
    if flagged || (acc.evaluations % every == 0 && acc.o3.len() < acc.o3_cap) {
        acc.o3.push((bytes.to_vec(), a.dis_accepts(), a.ins.len() as u32));
    }
}

fn no_output(cfg: &Config, res: &CaseResult, acc: &mut Acc) -> bool {
    match &res.outcome {
        Outcome::Ok(_) => false,
        Outcome::Err(e) => {
            acc.count("generation_err_not_judged_here", 1);
            let _ = (cfg, e);
            true
        }
        Outcome::Panic(_) => {
            acc.count("generation_panic_not_judged_here", 1);
            true
        }
    }
}

// ---------------------------------------------------------------- C01

pub fn check_c01(cfg: &Config, res: &CaseResult, acc: &mut Acc) {
    acc.evaluations += 1;
    if no_output(cfg, res, acc) {
        return;
    }
    let Outcome::Ok(bytes) = &res.outcome else { return };
    let a = analyze(bytes, false);
    let mut flagged = false;
    if let Some(e) = &a.lex_err {
        flagged = true;
        acc.violate(Violation {
            property: "C01".into(),
            signature: format!("C01:lex:{}:{}", e.opcode.unwrap_or("?"), cfg_class(cfg)),
            message: format!("output does not decode, so dis rejects it: {} [{}]", e, cfg.short()),
            replay: replay_case("C01", cfg, Some(bytes), &e.to_string(), json!({"offset": e.pos})),
        });
    } else if let Some(e) = &a.vm_err {
        flagged = true;
        let class = match &e.err {
            crate::refvm::VmError::Underflow { .. } => "underflow",
            crate::refvm::VmError::NoMark => "nomark",
            crate::refvm::VmError::StopStack(_) => "stop",
            _ => "other",
        };
        acc.violate(Violation {
            property: "C01".into(),
            signature: format!("C01:{}:{}:{}", class, e.opcode, cfg_class(cfg)),
            message: format!("reference stack check rejects the pickle: {} [{}]", e, cfg.short()),
            replay: replay_case(
                "C01",
                cfg,
                Some(bytes),
                &e.to_string(),
                json!({"offset": e.pos, "opcode_index": e.index, "opcode": e.opcode}),
            ),
        });
    }
    // coverage accounting
    let h = hash128(bytes);
    acc.ins_distinct(h);
    let markops = a.ins.iter().filter(|i| i.op.before.contains(&"mark")).count();
    let pops = a.ins.iter().filter(|i| !i.op.before.is_empty()).count();
    if markops > 0 || pops > 2 {
        acc.ins_nontrivial(h);
    }
    acc.count("opcodes_executed_by_reference_machine", a.ins.len() as u64);
    acc.count("mark_consuming_opcodes", markops as u64);
    acc.count("operand_consuming_opcodes", pops as u64);
    acc.max("max_stack_depth", a.max_depth as u64);
    if cfg.buf && a.count("READONLY_BUFFER") > 0 {
        acc.count("pickles_with_READONLY_BUFFER", 1);
    }
    if cfg.ext {
        acc.count("cases_ext_on", 1);
    }
    if cfg.buf {
        acc.count("cases_buffer_on", 1);
    }
    if !cfg.mutators.is_empty() {
        acc.count("cases_with_mutators", 1);
    }
    if matches!(cfg.entropy, Entropy::Bytes(_)) {
        acc.count("cases_fuzzer_bytes_mode", 1);
    }
    if acc.samples.len() < 4 && markops > 0 {
        acc.sample(sample_of(cfg, bytes, &a.op_names()));
    }
    o3_queue(acc, bytes, &a, flagged, 23);
}

// ---------------------------------------------------------------- C02

pub fn check_c02(cfg: &Config, res: &CaseResult, acc: &mut Acc) {
    acc.evaluations += 1;
    if no_output(cfg, res, acc) {
        return;
    }
    let Outcome::Ok(bytes) = &res.outcome else { return };
    let a = analyze(bytes, false);
    let mut flagged = false;
    if a.lex_err.is_some() {
        acc.count("undecodable_outputs_not_judged_here", 1);
        return;
    }
    if let Some(e) = a.memo_errs.first() {
        flagged = true;
        use crate::refvm::VmError::*;
        let class = match &e.err {
            MemoUndefined(_) => "get_undefined",
            MemoRedefined(_) => "put_redefined",
            MemoStoreEmpty => "put_empty",
            MemoStoreMark => "put_mark",
            _ => "bad_index",
        };
        acc.violate(Violation {
            property: "C02".into(),
            signature: format!("C02:{}:{}:{}", class, e.opcode, cfg_class(cfg)),
            message: format!("memo discipline broken: {} [{}]", e, cfg.short()),
            replay: replay_case(
                "C02",
                cfg,
                Some(bytes),
                &e.to_string(),
                json!({"offset": e.pos, "opcode_index": e.index, "opcode": e.opcode, "memo_errors": a.memo_errs.len()}),
            ),
        });
    }
    let h = hash128(bytes);
    acc.ins_distinct(h);
    if a.gets > 0 && a.puts > 0 {
        acc.ins_nontrivial(h);
    }
    acc.count("GET_family_executed", a.gets as u64);
    acc.count("PUT_family_executed", a.puts as u64);
    for n in ["PUT", "BINPUT", "LONG_BINPUT", "MEMOIZE", "GET", "BINGET", "LONG_BINGET"] {
        let c = a.count(n);
        if c > 0 {
            acc.count(&format!("op_{}", n), c as u64);
        }
    }
    acc.max("max_memo_entries_in_one_pickle", a.max_memo as u64);
    if a.max_memo > 256 {
        acc.count("pickles_with_more_than_256_memo_entries", 1);
        // BINPUT after the 256th entry is where a one-byte index would wrap
        let mut puts = 0;
        for i in &a.ins {
            match i.op.name {
                "PUT" | "LONG_BINPUT" | "MEMOIZE" => puts += 1,
                "BINPUT" => {
                    if puts >= 256 {
                        acc.count("BINPUT_with_256_or_more_entries_defined", 1);
                    }
                    puts += 1;
                }
                _ => {}
            }
        }
    }
    if cfg.mutators.contains(&Mk::Offbyone) || cfg.mutators.contains(&Mk::Memoindex) {
        if cfg.rate > 0.0 && a.gets > 0 {
            acc.count("pickles_with_GET_under_index_mutators", 1);
        }
    }
    if acc.samples.len() < 4 && a.gets > 0 && a.puts > 1 {
        acc.sample(sample_of(cfg, bytes, &a.op_names()));
    }
    o3_queue(acc, bytes, &a, flagged, 29);
}

// ---------------------------------------------------------------- C04

pub fn check_c04(cfg: &Config, res: &CaseResult, acc: &mut Acc) {
    acc.evaluations += 1;
    if no_output(cfg, res, acc) {
        return;
    }
    let Outcome::Ok(bytes) = &res.outcome else { return };
    let a = analyze(bytes, false);
    let mut problems: Vec<(String, String, usize)> = Vec::new();
    if let Some(e) = &a.lex_err {
        problems.push((format!("lex:{}", e.opcode.unwrap_or("unknown-byte")), e.to_string(), e.pos));
    } else {
        if a.trailing > 0 {
            problems.push((
                "trailing".into(),
                format!("{} bytes follow the first STOP", a.trailing),
                bytes.len() - a.trailing,
            ));
        }
        for i in &a.ins {
            match i.op.name {
                "EXT1" | "EXT2" | "EXT4" => {
                    if i.int().map_or(true, |v| v < 1) {
                        problems.push((
                            format!("extcode:{}", i.op.name),
                            format!("{} code {:?} is not >= 1", i.op.name, i.arg),
                            i.pos,
                        ));
                    }
                }
                "STRING" => {
                    // argument bytes between the opcode and the newline: two quotes at least
                    if i.end - i.pos < 4 {
                        problems.push((
                            "string_quotes".into(),
                            "STRING argument is a lone quote character, not a quoted string".into(),
                            i.pos,
                        ));
                    }
                }
                "GET" | "PUT" => match &i.arg {
                    Arg::Int(v) if *v >= 0 => {}
                    other => problems.push((
                        format!("memoindex:{}", i.op.name),
                        format!("{} index {:?} is not a non-negative integer", i.op.name, other),
                        i.pos,
                    )),
                },
                _ => {}
            }
        }
    }
    let flagged = !problems.is_empty();
    if let Some((sig, msg, pos)) = problems.first() {
        acc.violate(Violation {
            property: "C04".into(),
            signature: format!("C04:{}:{}", sig, cfg_class(cfg)),
            message: format!("output is not a well-formed opcode stream: {} [{}]", msg, cfg.short()),
            replay: replay_case("C04", cfg, Some(bytes), msg, json!({"offset": pos})),
        });
    }
    let h = hash128(bytes);
    acc.ins_distinct(h);
    let with_args = a.ins.iter().filter(|i| !i.op.arg.is_empty()).count();
    if with_args >= 3 {
        acc.ins_nontrivial(h);
    }
    acc.count("opcodes_decoded", a.ins.len() as u64);
    acc.count("arguments_decoded", with_args as u64);
    if cfg.unsafe_mut {
        acc.count("cases_unsafe", 1);
    }
    for i in &a.ins {
        match i.op.arg {
            "stringnl" | "unicodestringnl" | "floatnl" | "decimalnl_short" | "decimalnl_long" | "int4" | "long1" | "long4"
            | "string4" | "unicodestring8" | "bytes8" | "bytearray8" | "stringnl_noescape_pair" | "stringnl_noescape" => {
                acc.count(&format!("argkind_{}", i.op.arg), 1);
            }
            _ => {}
        }
        if i.op.name == "STRING" {
            if let Arg::Bytes(s, e) = i.arg {
                let body = &bytes[s..e];
                if body.contains(&b'\\') {
                    acc.count("STRING_args_with_backslash_escape", 1);
                }
            }
        }
        if i.op.name == "FLOAT" {
            if let Arg::Float(f) = i.arg {
                if !f.is_finite() {
                    acc.count("FLOAT_args_nan_or_inf", 1);
                }
            }
        }
        if i.op.name == "EXT4" {
            acc.count("EXT4_seen", 1);
        }
    }
    if acc.samples.len() < 4 && with_args >= 3 {
        acc.sample(sample_of(cfg, bytes, &a.op_names()));
    }
    o3_queue(acc, bytes, &a, flagged, 19);
}

// ---------------------------------------------------------------- C05

pub fn check_c05(cfg: &Config, res: &CaseResult, acc: &mut Acc) {
    acc.evaluations += 1;
    if no_output(cfg, res, acc) {
        return;
    }
    let Outcome::Ok(bytes) = &res.outcome else { return };
    let a = analyze(bytes, false);
    if a.lex_err.is_some() {
        acc.count("undecodable_outputs_not_judged_here", 1);
        return;
    }
    let p = cfg.proto;
    let mut problem: Option<(String, String, usize)> = None;
    for (idx, i) in a.ins.iter().enumerate() {
        if i.op.proto > p && i.op.name != "PROTO" {
            problem = Some((
                format!("newer:{}", i.op.name),
                format!("opcode {} (introduced in protocol {}) in a protocol {} pickle", i.op.name, i.op.proto, p),
                i.pos,
            ));
            break;
        }
        if i.op.name == "PROTO" {
            if p < 2 {
                problem = Some(("proto_in_p01".into(), format!("PROTO present in a protocol {} pickle", p), i.pos));
                break;
            }
            if idx != 0 {
                problem = Some(("proto_repeated".into(), "PROTO is not the first opcode / repeated".into(), i.pos));
                break;
            }
            if i.int() != Some(p as i128) {
                problem = Some((
                    "proto_arg".into(),
                    format!("PROTO argument {:?} != requested protocol {}", i.arg, p),
                    i.pos,
                ));
                break;
            }
        }
    }
    if problem.is_none() && p >= 2 && a.ins.first().map(|i| i.op.name) != Some("PROTO") {
        problem = Some(("proto_missing".into(), format!("protocol {} pickle does not start with PROTO", p), 0));
    }
    if problem.is_none() && p == 0 {
        if let Some(pos) = bytes.iter().position(|&b| b >= 0x80) {
            problem = Some((
                "p0_non_ascii".into(),
                format!("protocol 0 output contains non-ASCII byte 0x{:02x}", bytes[pos]),
                pos,
            ));
        }
    }
    if let Some((sig, msg, pos)) = &problem {
        acc.violate(Violation {
            property: "C05".into(),
            signature: format!("C05:{}:P{}", sig, p),
            message: format!("{} [{}]", msg, cfg.short()),
            replay: replay_case("C05", cfg, Some(bytes), msg, json!({"offset": pos})),
        });
    }
    let h = hash128(bytes);
    acc.ins_distinct(h);
    if a.ins.len() >= 4 {
        acc.ins_nontrivial(h);
    }
    acc.count(&format!("pickles_P{}", p), 1);
    acc.count("opcode_occurrences_checked", a.ins.len() as u64);
    // collapse tail shape: how many TUPLE2/3/TUPLE/NONE right before STOP
    let n = a.ins.len();
    if n >= 2 {
        let last = a.ins[n - 2].op.name;
        acc.count(&format!("last_opcode_before_STOP_{}", last), 1);
    }
    if acc.samples.len() < 4 {
        acc.sample(sample_of(cfg, bytes, &a.op_names()));
    }
    o3_queue(acc, bytes, &a, problem.is_some(), 97);
}

// ---------------------------------------------------------------- C06

pub fn check_c06(cfg: &Config, res: &CaseResult, acc: &mut Acc) {
    acc.evaluations += 1;
    if no_output(cfg, res, acc) {
        return;
    }
    let Outcome::Ok(bytes) = &res.outcome else { return };
    let a = analyze(bytes, false);
    if let Some(e) = &a.lex_err {
        // without unsafe mutations nothing rewrites emitted bytes: if the content of a frame does not
        // decode into whole opcodes ending with STOP at the frame's end, some opcode's argument
        // runs across that end ("no opcode straddles the frame")
        if !cfg.unsafe_mut && !cfg.mutator_flag() && cfg.proto >= 4 {
            let pre = crate::lexer::lex_lenient(bytes);
            if pre.len() >= 2 && pre[0].op.name == "PROTO" && pre[1].op.name == "FRAME" && pre[1].pos == 2 {
                let msg = format!(
                    "the content of the FRAME does not decode into whole opcodes that end with STOP at the frame's end ({}): an opcode straddles the frame",
                    e
                );
                acc.violate(Violation {
                    property: "C06".into(),
                    signature: format!("C06:frame_straddled:{}", cfg_class(cfg)),
                    message: format!("{} [{}]", msg, cfg.short()),
                    replay: replay_case("C06", cfg, Some(bytes), &msg, json!({"offset": e.pos})),
                });
            }
        }
        acc.count("undecodable_outputs_not_judged_here", 1);
        return;
    }
    let frames: Vec<&crate::lexer::Ins> = a.ins.iter().filter(|i| i.op.name == "FRAME").collect();
    let mut problem: Option<(String, String, usize)> = None;
    if cfg.proto < 4 && !frames.is_empty() {
        problem = Some(("frame_in_p0_3".into(), format!("FRAME in a protocol {} pickle", cfg.proto), frames[0].pos));
    } else if frames.len() > 1 {
        problem = Some(("frame_repeated".into(), format!("{} FRAME opcodes", frames.len()), frames[1].pos));
    } else if let Some(f) = frames.first() {
        let is_second = a.ins.len() >= 2 && a.ins[0].op.name == "PROTO" && a.ins[1].pos == f.pos;
        if !is_second || f.pos != 2 {
            problem = Some(("frame_position".into(), format!("FRAME at offset {} does not immediately follow PROTO", f.pos), f.pos));
        } else {
            let want = (bytes.len() - f.end) as i128;
            if f.int() != Some(want) {
                problem = Some((
                    "frame_length".into(),
                    format!("FRAME length {:?} but {} bytes follow its argument", f.arg, want),
                    f.pos,
                ));
            }
        }
    }
    if let Some((sig, msg, pos)) = &problem {
        acc.violate(Violation {
            property: "C06".into(),
            signature: format!("C06:{}:{}", sig, cfg_class(cfg)),
            message: format!("{} [{}]", msg, cfg.short()),
            replay: replay_case("C06", cfg, Some(bytes), msg, json!({"offset": pos})),
        });
    }
    let h = hash128(bytes);
    acc.ins_distinct(h);
    if !frames.is_empty() {
        acc.ins_nontrivial(h);
        acc.count("framed_pickles", 1);
        if cfg.unsafe_mut && cfg.mutators.contains(&Mk::Typeconfusion) && cfg.rate > 0.0 {
            acc.count("framed_pickles_under_unsafe_typeconfusion", 1);
        }
    } else if cfg.proto >= 4 {
        acc.count("unframed_pickles_P4_5", 1);
    } else {
        acc.count("pickles_P0_3", 1);
    }
    for ev in &res.events {
        if let pickle_fuzzer::verif::Event::Rewrite { .. } = ev {
            acc.count("post_emission_rewrites_observed", 1);
        }
    }
    if acc.samples.len() < 4 && !frames.is_empty() {
        acc.sample(sample_of(cfg, bytes, &a.op_names()));
    }
    o3_queue(acc, bytes, &a, problem.is_some(), 97);
}

// ---------------------------------------------------------------- C10

pub fn check_c10(cfg: &Config, res: &CaseResult, acc: &mut Acc) {
    acc.evaluations += 1;
    if no_output(cfg, res, acc) {
        return;
    }
    let Outcome::Ok(bytes) = &res.outcome else { return };
    let mut a = analyze(bytes, false);
    if a.lex_err.is_some() {
        // a stream that desynchronises later is C04's business; the opcodes that do decode are
        // still scanned here
        acc.count("outputs_with_a_lex_error_scanned_up_to_it", 1);
        a.ins = crate::lexer::lex_lenient(bytes);
    }
    let mut ext = 0;
    let mut buf = 0;
    let mut first: Option<(&'static str, usize)> = None;
    for i in &a.ins {
        match i.op.name {
            "EXT1" | "EXT2" | "EXT4" => {
                ext += 1;
                if !cfg.ext && first.is_none() {
                    first = Some((i.op.name, i.pos));
                }
            }
            "NEXT_BUFFER" | "READONLY_BUFFER" => {
                buf += 1;
                if !cfg.buf && first.is_none() {
                    first = Some((i.op.name, i.pos));
                }
            }
            _ => {}
        }
    }
    if let Some((name, pos)) = first {
        let msg = format!(
            "{} at offset {} although allow_ext={} allow_buffer={}",
            name, pos, cfg.ext, cfg.buf
        );
        acc.violate(Violation {
            property: "C10".into(),
            signature: format!("C10:{}:{}", name, cfg_class(cfg)),
            message: format!("{} [{}]", msg, cfg.short()),
            replay: replay_case("C10", cfg, Some(bytes), &msg, json!({"offset": pos, "opcode": name})),
        });
    }
    let h = hash128(bytes);
    acc.ins_distinct(h);
    let combo = format!("flags_ext{}_buf{}", cfg.ext as u8, cfg.buf as u8);
    acc.count(&format!("cases_{}", combo), 1);
    if a.ins.len() >= 8 {
        acc.ins_nontrivial(h);
    }
    if cfg.ext && ext > 0 {
        acc.count("positive_control_ext_on_and_EXT_seen", 1);
    }
    if cfg.buf && buf > 0 {
        acc.count("positive_control_buffer_on_and_buffer_op_seen", 1);
    }
    if cfg.unsafe_mut {
        acc.count("cases_unsafe", 1);
    }
    acc.count("opcodes_scanned", a.ins.len() as u64);
    if acc.samples.len() < 3 {
        acc.sample(sample_of(cfg, bytes, &a.op_names()));
    }
}
