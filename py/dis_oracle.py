#!/usr/bin/env python3
"""O3 - CPython pickletools as a differential second opinion.

Reads the dump written by `pfv check` ([u32 len][bytes][u8 o2_accepts][u32 o1_nops] ...),
runs pickletools.genops and pickletools.dis on every pickle (16 worker processes) and
reports where CPython disagrees with O1 (opcode count / decodability) or O2 (accept / reject).
A disagreement is an oracle self-check failure (the check becomes inconclusive), never a violation.
"""
import sys, struct, json, io, pickletools
from multiprocessing import Pool


class _Null:
    def write(self, s):
        pass


def judge(item):
    idx, data, o2_ok, o1_n = item
    try:
        n = sum(1 for _ in pickletools.genops(data))
        lex_err = None
    except Exception as e:  # noqa
        n = 0
        lex_err = "%s: %s" % (type(e).__name__, e)
    if lex_err is None:
        try:
            pickletools.dis(data, out=_Null())
            ok = True
            err = None
        except Exception as e:  # noqa
            ok = False
            err = "%s: %s" % (type(e).__name__, e)
    else:
        ok = False
        err = lex_err
    dis = []
    if n != o1_n:
        dis.append("opcode count: O1=%d genops=%d (%s)" % (o1_n, n, lex_err))
    if ok != bool(o2_ok):
        dis.append("verdict: O2=%s dis=%s (%s)" % ("accept" if o2_ok else "reject", "accept" if ok else "reject", err))
    return idx, ok, dis, data[:48].hex() if dis else None


def load(path):
    items = []
    with open(path, "rb") as f:
        buf = f.read()
    p = 0
    idx = 0
    while p < len(buf):
        (n,) = struct.unpack_from("<I", buf, p)
        p += 4
        data = buf[p:p + n]
        p += n
        ok = buf[p]
        p += 1
        (nops,) = struct.unpack_from("<I", buf, p)
        p += 4
        items.append((idx, data, ok, nops))
        idx += 1
    return items


def main():
    path = sys.argv[1]
    items = load(path)
    res = {"checked": len(items), "cpython_accepts": 0, "cpython_rejects": 0, "disagreements": []}
    if items:
        with Pool(16) as pool:
            for idx, ok, dis, head in pool.imap_unordered(judge, items, chunksize=64):
                if ok:
                    res["cpython_accepts"] += 1
                else:
                    res["cpython_rejects"] += 1
                if dis and len(res["disagreements"]) < 20:
                    res["disagreements"].append({"index": idx, "what": dis, "head_hex": head})
    json.dump(res, sys.stdout)


if __name__ == "__main__":
    main()
