#!/usr/bin/env python3
"""Validate the monitors against code changes that break a property.

run_mutants.py own [--tests] [id ...]      apply each entry of mutants/mutants.json to /repo's working tree,
                                           run the quick check(s) of its property, revert (git checkout -- .)
run_mutants.py seeded [--tier T] [name ...] same for seeded/<name>/patch.diff (changes written by sub-agents)

Nothing is ever committed to /repo. Results: mutants/results.json, seeded/results.json.
"""
import json, os, subprocess, sys, time

VERIF = os.path.dirname(os.path.dirname(os.path.abspath(__file__)))
REPO = "/repo"


def sh(cmd, cwd=None, env=None):
    e = dict(os.environ)
    if env:
        e.update(env)
    return subprocess.run(cmd, cwd=cwd, env=e, stdout=subprocess.PIPE, stderr=subprocess.STDOUT, text=True)


def clean():
    r = sh(["git", "-C", REPO, "status", "--porcelain"])
    return r.stdout.strip() == ""


def revert():
    sh(["git", "-C", REPO, "checkout", "--", "."])
    sh(["git", "-C", REPO, "clean", "-fdq", "tests", "src", "scripts", "python"])


def run_check(prop, tier, seed="1"):
    t0 = time.time()
    r = sh([os.path.join(VERIF, "check"), prop, tier], cwd=VERIF, env={"VERIF_SEED": seed})
    lines = r.stdout.strip().splitlines()
    verdict = [l for l in lines if l.startswith(("VIOLATION", "INCONCLUSIVE", "HELD", "KNOWN-FINDING"))]
    sigs = sorted(set(l.strip() for l in lines if l.strip().startswith("signature=")))
    return {"exit": r.returncode, "wall_s": round(time.time() - t0, 1), "verdict": verdict[:3], "signatures": sigs[:6]}


def tests_pass():
    r = sh(["cargo", "test", "--workspace", "--no-fail-fast", "--offline"], cwd=REPO)
    ok = r.returncode == 0 and "FAILED" not in r.stdout
    return ok, r.stdout[-600:]


def main():
    args = sys.argv[1:]
    mode = args.pop(0)
    tier = "quick"
    with_tests = False
    if "--tests" in args:
        args.remove("--tests")
        with_tests = True
    if "--tier" in args:
        i = args.index("--tier")
        tier = args[i + 1]
        del args[i:i + 2]
    if not clean():
        print("refusing to run: /repo working tree is not clean")
        sys.exit(2)
    results = {}
    if mode == "own":
        muts = json.load(open(os.path.join(VERIF, "mutants", "mutants.json")))
        for m in muts:
            if args and m["id"] not in args:
                continue
            path = os.path.join(REPO, m["file"])
            src = open(path).read()
            if src.count(m["old"]) != 1:
                results[m["id"]] = {"error": "pattern occurs %d times" % src.count(m["old"])}
                print(m["id"], results[m["id"]])
                continue
            open(path, "w").write(src.replace(m["old"], m["new"]))
            try:
                entry = {"property": m["property"], "desc": m["desc"], "checks": {}}
                if with_tests:
                    ok, tail = tests_pass()
                    entry["existing_tests_pass"] = ok
                    if not ok:
                        entry["tests_tail"] = tail
                for p in m["property"]:
                    entry["checks"][p] = run_check(p, tier)
                results[m["id"]] = entry
                print(m["id"], {p: (c["exit"], c["wall_s"]) for p, c in entry["checks"].items()}, entry.get("existing_tests_pass"), flush=True)
            finally:
                revert()
        out = os.path.join(VERIF, "mutants", "results.json")
    else:
        base = os.path.join(VERIF, "seeded")
        names = args or sorted(d for d in os.listdir(base) if os.path.isdir(os.path.join(base, d)))
        for name in names:
            d = os.path.join(base, name)
            meta = json.load(open(os.path.join(d, "meta.json")))
            r = sh(["git", "-C", REPO, "apply", os.path.join(d, "patch.diff")])
            if r.returncode != 0:
                results[name] = {"error": "patch does not apply: " + r.stdout[-300:]}
                print(name, results[name])
                revert()
                continue
            try:
                entry = {"property": meta["property"], "checks": {}}
                for p in meta.get("run_checks", [meta["property"]]):
                    entry["checks"][p] = run_check(p, tier)
                results[name] = entry
                print(name, {p: (c["exit"], c["wall_s"], c["signatures"][:2]) for p, c in entry["checks"].items()}, flush=True)
            finally:
                revert()
        out = os.path.join(base, "results-%s.json" % tier)
    prev = {}
    if os.path.exists(out):
        try:
            prev = json.load(open(out))
        except Exception:
            prev = {}
    prev.update(results)
    with open(out, "w") as f:
        json.dump(prev, f, indent=1, sort_keys=True)
        f.write("\n")
    assert clean(), "/repo not clean after run"


if __name__ == "__main__":
    main()
