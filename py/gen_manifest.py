#!/usr/bin/env python3
"""Regenerate /verif/MANIFEST.json (kept as a script so the 18 entries stay consistent)."""
import json, os, subprocess

VERIF = os.path.dirname(os.path.dirname(os.path.abspath(__file__)))

P = {
 "C01": ("O2 reference machine (pickletools.dis semantics) over every returned pickle; CPython dis differential",
         "Every pickle of the safe configuration matrix (128 mutator subsets x 6 protocols enumerated; ranges, rates, opt-in flags, both entropy modes drawn), every opcode-choice sequence up to a fixed depth (fuzzer-bytes steering) 45k+ opcode pickles, recipe-steered alias-heavy pickles, a deep-state block (one opcode chosen greedily for 4 200..20 500 steps: thousands of pending MARKs / stack entries / memo entries when the collapse tail starts), generators reused after earlier pickles (five hand-over styles incl. public-field writes; earlier pickles of up to 9 500 opcodes, or a giant one with 30 000 pending MARKs / memo entries), generators constructed seven ways (Generator::new in three builder orders, Generator::default(), built for another protocol and retargeted through state.version) and files written by the built CLI (single and batch mode) are executed on an independent flat reference machine; a sample plus every flagged pickle is re-judged by CPython pickletools.dis. Exploration is the right level: the property is a universal statement over an unbounded input/config space whose failures need specific opcode interleavings, which a monitor over many real executions reaches and a finite run cannot prove.",
         "5.C01"),
 "C02": ("O2 memo model over returned pickles incl. >256-entry memos; CPython dis differential",
         "Memo rules (GET defined, PUT fresh, no PUT on MARK/empty) are replayed on every output of the safe matrix plus long 3000..6000-opcode pickles with OffByOne/MemoIndex(safe) at rate 1.0/0.5, so that memos exceed 256 entries and mutated indices miss, plus the deep-state block (up to 20 500 memo entries, thorough 40 000), reused generators and CLI-produced files; evidence counts GET/PUT executions, >256-entry pickles and BINPUTs issued past entry 256.",
         "5.C02"),
 "C03": ("kind-tracking reference machine on executed opcodes + precondition check of every offered opcode, confirmed by steering",
         "Typed opcodes are checked where executed (returned bytes on O2 with kinds) and where merely offered (hook Choice events against the reference state; an offered-but-illegal opcode is steered to and must then fail on the real output before it counts). Workloads: safe matrix, exhaustive decision-tree prefixes, abstract-state BFS, 46 object-heavy recipes, 5000+ opcode pickles, deep-state block.",
         "5.C03"),
 "C04": ("O1 opcode-table lexer with CPython reader semantics + domain checks on every output incl. unsafe mode; genops differential",
         "Every output of the full matrix (unsafe mutations, type confusion, all 128 subsets, EXT/buffer on) must lex completely under the CPython table with each argument in its domain, exactly one STOP, nothing after it; the deep-state block and CLI-produced files (single and batch mode, unsafe flags) are lexed too.",
         "5.C04"),
 "C05": ("O1 lexer + introduced-in-protocol column over every opcode occurrence",
         "Every opcode occurrence (body and collapse tail) of safe-matrix outputs is compared with the protocol column of the CPython table; PROTO presence/uniqueness/argument and 7-bit cleanliness of protocol 0 are checked on the bytes; includes long and deep-state pickles of every protocol, generators that earlier ran under another protocol, and CLI-produced files.",
         "5.C05"),
 "C06": ("O1 lexer positions/arguments of FRAME on final bytes (library outputs incl. post-emission rewrites, reused generators, files written by the CLI over older files)",
         "FRAME count, offset and length are re-derived from the final bytes for the full matrix incl. unsafe TypeConfusion at rate 1 (rewrites after emission), with evidence of how many framed outputs and rewrites were seen.",
         "5.C06"),
 "C07": ("byte equality of repeated executions across instances, 16 threads with perturbed schedules, separate processes with permuted histories, isolated single-case processes, rayon widths",
         "Equal (config, entropy) cases are generated on the main thread twice, on 16 concurrent threads in shuffled orders with random yields, in >= 8 separately spawned processes (fresh ASLR/hash seeds, different TZ/cwd) and through the CLI batch mode under RAYON_NUM_THREADS 1/2/3/16; full bytes are compared. Half of the cases are recipe-steered pickles (containers with several members of different kinds under typed opcodes, aliases, memo round trips), where a decision that iterates a hash-ordered or address-keyed container would show. Thorough adds a ThreadSanitizer build of the threaded workload.",
         "5.C07"),
 "C08": ("history replay against a fresh generator (Rust API and Python PickleMutator)",
         "Every history of length <= 3 over {generate, generate_from_arbitrary(x0|x1), reset} and sampled longer ones, on configurations of all protocols; every generation call is compared byte-for-byte with a fresh generator given only that call; histories also contain writes to the public configuration fields between calls (the fresh generator gets the same writes) and inputs followed by an extension or truncation of themselves; unseeded calls must differ from each other; the Python PickleMutator.mutate path is exercised against the built extension.",
         "5.C08"),
 "C09": ("catch_unwind + Err/empty monitor + hook step bound + per-call CPU work bound + child-process exit status over exhaustive short inputs, periodic inputs and hostile configs",
         "All 65 793 byte strings of length <= 2 x 6 protocols x a configuration set (exhaustive sub-space), every two-byte pattern repeated to 1000 bytes at 400 opcodes, the full matrix with NaN/out-of-range rates, and child-process cases (20k+ opcodes, TUPLE1 chains on a 2 MiB stack, 8 KiB inputs, hostile buffer sizes), and the deep-state block (each of MARK, DUP, pushes, memo writers, APPEND, TUPLE.. chosen greedily for 4 200 and 20 500 steps per protocol, opcode cycles, and the same inputs cut to 8 KiB on a 2 MiB thread in child processes). Generators are constructed five ways (three builder-call orders on Generator::new, two from Generator::default() with the protocol written through the public state field). 'Never loops forever' is decided as a bound on emitted opcodes and on the CPU time consumed by the generating thread (>= 60x the slowest generation observed); a wall-clock watchdog firing is inconclusive. Thorough adds ASan, valgrind memcheck and a debug-build run.",
         "5.C09"),
 "C10": ("O1 opcode histogram by decoded position under the four flag combinations (library, CLI flags, action-wrapper switches), with positive control",
         "EXT*/buffer opcodes are looked for at decoded opcode positions (never raw bytes) in outputs of the full matrix incl. unsafe for all four flag combinations, in CLI batches and in wrapper runs (documented truthy spellings, twenty spellings of 'off', switches not exported at all); the run is inconclusive unless the opcodes do occur with the flag on.",
         "5.C10"),
 "C11": ("hook event log (T, choices, per-step byte ranges, body/tail boundary) cross-checked with O1 opcode counts; CLI --min/--max-opcodes outputs counted too",
         "T, the number of choices/emissions, one-opcode-per-body-step, tail length <= 2T+1 and the total bound are checked per execution over an 18-point (min,max) grid incl. equal/inverted/zero, all mutator subsets safe and unsafe, both entropy modes, three builder-call orders, plus the deep-state block (tail bound with thousands of pending MARKs); the output must grow with every emission; the wrapper's min_opcodes / max_opcodes inputs are driven over the same grid.",
         "5.C11"),
 "C12": ("union of decoded opcode sets over a fixed seed block (existential witnesses per (protocol, opcode))",
         "Default-settings generations for seeds [0,N) per protocol (plus flags-on block for EXT*/buffer) must together contain every opcode of the CPython table with proto <= P, and framed and unframed outputs for P >= 4; evidence lists the witness seed and count per pair. A single-threaded ascending-protocol prelude and a CLI layer (flag combinations in single and batch mode must keep the enabled opcodes alive) are included, as are CLI runs with --seed alone (protocol derived by the tool: every protocol, and 4/5 both framed and unframed, must come up), a census over the fuzzer-bytes entry point (random, recipe-steered and greedy-steered inputs) and one on generators retargeted from a lower protocol through state.version.",
         "5.C12"),
 "C13": ("byte comparison of CLI / batch / action wrapper / Python bindings against the library via an independent option mapping",
         "The built binary, scripts/action-run.sh and the built _native extension are driven over an option matrix; every produced file / returned value is compared with library bytes for the independently mapped configuration; batch file sets, exit statuses and injected write faults (before the first write, mid-batch, exactly 256 failures), overwriting of older longer files, odd cwd / locale / environment are checked.",
         "5.C13"),
 "C14": ("per-thread counting allocator: live heap before Generator::new vs after drop, reproducible x3; long reuse histories; equal live heap after 1/4/10 passes over a fixed cycle; mallinfo2 probe of the Python layer",
         "Exact live-bytes/blocks deltas for every case of the full matrix under three lifecycles, alias-heavy and recipe-steered pickles (memo aliases, NaN containers), the deep-state block, long generate/reset histories, and 14 500 generations whose configuration values (ranges incl. inverted, seeds, rates, buffer sizes) are new every time (live heap read after 500/2 500/6 500/14 500 with no generator alive), 4 000 generations WITHOUT a seed and 40 000 (thorough 400 000) default generations with the opt-in opcodes on (these single-thread growth blocks run first, in a pristine process; four live-heap readings must not grow); coverage shows how many analysed outputs contained aliasing insertions / identity cycles. Thorough adds LeakSanitizer and valgrind memcheck as second opinions.",
         "5.C14"),
 "C15": ("hook Draw/Mutated/Rewrite events at rate 0 and 1 + direct calls of every mutator on hostile entropy",
         "In-generation: at rate 0 no Mutated/Rewrite event may occur, at rate 1 every Draw must be followed by a Mutated from the first applicable mutator (all 128 subsets, permuted lists, both entropy modes incl. hostile doubles; a quarter of the cases create the mutator objects with the opposite unsafe flag from the generator's own; pickles of 3 000-6 000 opcodes included). Direct: every mutator method on harness-built sources (NaN/inf/negative/huge leading doubles, exhausted input).",
         "5.C15"),
 "C16": ("contract predicates on direct mutator calls over boundary-exhaustive value grids and real emission snapshots",
         "Every Mutator method is called over i32/i64 boundaries (exhaustive) plus samples, strings/bytes of 0..64 items incl. multi-byte, memo indices incl. 0 and usize::MAX, both entropy sources incl. exhausted input, every value of the first byte a mutation draws, and for 16 boundary memo indices all 65 536 values of the two draw bytes; TypeConfusion on snapshots cut from real generations and synthetic deltas for all 256 opcode bytes, also with a buffer tail that an earlier mutator has already replaced (stale snapshot).",
         "5.C16"),
 "C17": ("offline checker: per-emission hook snapshots vs O2 run on output[..len]",
         "After every emission the simulated stack depth, MARK positions, slot kinds and memo keys are compared with the reference machine over the safe matrix, exhaustive decision-tree prefixes, abstract-state BFS, object-heavy recipes, 5000+ opcode pickles and the deep-state block; evidence counts snapshots compared and distinct (state, opcode) transitions.",
         "5.C17"),
 "C18": ("range predicates on direct EntropySource calls; all byte strings of length <= 2 exhaustively",
         "Every EntropySource method over an 18-point argument grid (all pairs) on all 65 793 byte strings of length <= 2 (exhaustive), random longer strings, constant fills of length 3..24, concatenations of 4-byte boundary words and PRNG states; fallbacks after exhaustion must be the documented fixed values and deterministic.",
         "5.C18"),
}

def main():
    hooks_commits = []
    try:
        out = subprocess.run(["git", "-C", "/repo", "log", "--format=%H %s"], capture_output=True, text=True).stdout
        for line in out.splitlines():
            h, _, s = line.partition(" ")
            if "verif-hooks" in s or s.startswith("verif-hooks"):
                hooks_commits.append(h)
    except Exception:
        pass
    checks = []
    for pid in sorted(P):
        tech, text, ref = P[pid]
        checks.append({
            "property_id": pid,
            "quick_cmd": "./check %s quick" % pid,
            "thorough_cmd": "./check %s thorough" % pid,
            "evidence_file": "/verif/evidence/%s.json" % pid,
            "replay_cmd_template": "./check %s --replay {path}" % pid,
            "engine": "pfv",
            "level_claimed": {"category": "exploration", "text": text, "design_ref": "DESIGN.md section " + ref},
            "level_note": "Held on the executions observed, not verified. Trusted base: the harness oracles (O1 lexer, O2 reference machine; both differentially checked against CPython pickletools on every run), the additive verif-hooks event log, rustc/cargo, CPython 3.11 pickletools.",
            "technique": "runtime monitoring: " + tech,
        })
    m = {
        "version": 1,
        "setup_cmd": "./check setup",
        "hooks": {
            "guard": "cargo feature verif-hooks",
            "enable": "the harness crate depends on /repo with features = [\"verif-hooks\"] (cargo build --release --offline in /verif/harness); the CLI and the Python extension exercised by C07/C13/C08 are built without it",
            "baseline_off_cmd": "cd /repo && cargo test --workspace --no-fail-fast --offline",
            "source_commits": hooks_commits,
            "add_only": True,
        },
        "engines": [
            {"name": "pfv", "path": "/verif/harness", "serves_properties": sorted(P),
             "kind_free_text": "Rust harness: independent opcode-table lexer (O1), flat reference pickle machine with kinds and identity (O2), counting allocator (O4), workload drivers (config matrix, exhaustive short inputs, decision-tree steering), per-property monitors over outputs and the hook event log"},
            {"name": "dis_oracle", "path": "/verif/py/dis_oracle.py", "serves_properties": ["C01", "C02", "C04", "C05", "C06"],
             "kind_free_text": "CPython pickletools genops/dis as a differential second opinion on O1/O2 (disagreement = inconclusive)"},
            {"name": "frontends", "path": "/verif/py/frontends.py", "serves_properties": ["C13", "C08"],
             "kind_free_text": "Python driver for the CLI, batch mode, scripts/action-run.sh and the built _native extension, with an independent option->configuration mapping"},
            {"name": "sanitizers", "path": "/verif/py/sanitizers.py", "serves_properties": ["C07", "C09", "C14"],
             "kind_free_text": "thorough tier: ASan/LSan and TSan builds (nightly), valgrind memcheck, Miri smoke"},
        ],
        "checks": checks,
        "not_applicable": [],
        "notes": "All 18 properties are decided by runtime monitoring. Verdicts are three-valued: exit 0 held on what was observed, exit 1 VIOLATION with a replay file, exit 2 INCONCLUSIVE (never folded into the others). Known findings: /verif/KNOWN_FINDINGS.txt.",
    }
    with open(os.path.join(VERIF, "MANIFEST.json"), "w") as f:
        json.dump(m, f, indent=1)
        f.write("\n")
    print("wrote MANIFEST.json with", len(checks), "checks; hook commits:", hooks_commits)

if __name__ == "__main__":
    main()
