#!/usr/bin/env python3
"""O5 - thorough-tier second opinions: compiler sanitizers, valgrind memcheck, Miri smoke.

C09: ASan build of the plain workload (memory errors in dependencies / panics that abort),
     valgrind memcheck (invalid reads/writes) on the release harness.
C14: LeakSanitizer (ASan build, detect_leaks=1) and valgrind --leak-check=full as independent
     leak oracles next to the counting allocator; Miri smoke on tiny generations.
C07: ThreadSanitizer build (-Zbuild-std) of the 8-thread workload.

One sanitizer per build; reports are counted from log files, de-duplicated by the first
in-repo frame. A build or tool failure is inconclusive for that tool, never a violation.
"""
import glob, json, os, re, shutil, subprocess, time

TARGET = "x86_64-unknown-linux-gnu"


def _run(cmd, env=None, cwd=None, timeout=3600):
    e = dict(os.environ, CARGO_NET_OFFLINE="true")
    if env:
        e.update(env)
    try:
        r = subprocess.run(cmd, env=e, cwd=cwd, stdout=subprocess.PIPE, stderr=subprocess.PIPE, text=True, timeout=timeout)
        return r.returncode, r.stdout, r.stderr
    except subprocess.TimeoutExpired as ex:
        return None, (ex.stdout or b"").decode("utf-8", "replace") if isinstance(ex.stdout, bytes) else (ex.stdout or ""), "TIMEOUT"


def _build(paths, name, rustflags, extra):
    tdir = os.path.join(paths["build"], name + "-target")
    cmd = ["cargo", "+nightly", "build", "--release", "--offline", "--target", TARGET] + extra
    rc, out, err = _run(cmd, env={"RUSTFLAGS": rustflags, "CARGO_TARGET_DIR": tdir}, cwd=os.path.join(paths["verif"], "harness"))
    exe = os.path.join(tdir, TARGET, "release", "pfv")
    if rc != 0 or not os.path.exists(exe):
        return None, (err or "")[-1500:]
    return exe, ""


def _first_repo_frame(block):
    for line in block.splitlines():
        m = re.search(r"(pickle_fuzzer::[A-Za-z0-9_:<>]+|pfv::[A-Za-z0-9_:<>]+)", line)
        if m:
            return m.group(1)
    return "?"


def _reports(logdir, marker):
    text = ""
    for f in sorted(glob.glob(os.path.join(logdir, "*"))):
        try:
            text += open(f, errors="replace").read() + "\n"
        except OSError:
            pass
    blocks = [b for b in re.split(r"(?=^=+\d+=+ERROR|^WARNING: ThreadSanitizer|^Direct leak|^Indirect leak)", text, flags=re.M) if marker in b]
    dedup = {}
    for b in blocks:
        dedup.setdefault(_first_repo_frame(b), b)
    return len(blocks), dedup


def run(pid, tier, seed, paths):
    res = {"violations_detail": [], "inconclusive": [], "coverage": {}}
    cov = res["coverage"]
    out = paths["out"]
    os.makedirs(os.path.join(out, "replay"), exist_ok=True)

    def violate(sig, msg, witness):
        n = len(res["violations_detail"])
        p = os.path.join(out, "replay", "%s-%d-san%d.json" % (pid, seed, n))
        with open(p, "w") as f:
            json.dump(dict(witness, kind="sanitizer", property=pid, signature=sig, message=msg), f, indent=1)
        res["violations_detail"].append({"signature": sig, "message": msg, "replay": p})

    pfv = os.path.join(paths["build"], "harness-target", "release", "pfv")

    if pid in ("C09", "C14"):
        t0 = time.time()
        exe, err = _build(paths, "asan", "-Zsanitizer=address -Cforce-frame-pointers=yes", [])
        if exe is None:
            res["inconclusive"].append("ASan build failed: " + err[-300:])
        else:
            logdir = os.path.join(out, "asan-logs-" + pid)
            shutil.rmtree(logdir, ignore_errors=True)
            os.makedirs(logdir)
            n_cases = 160000
            shards = 16
            procs = []
            for k in range(shards):
                env = dict(os.environ, ASAN_OPTIONS="detect_leaks=%d:halt_on_error=1:abort_on_error=0:log_path=%s/asan.%d" % (
                    1 if pid == "C14" else 0, logdir, k), RUST_BACKTRACE="0")
                procs.append(subprocess.Popen([exe, "child", "sanwork", "single", str(seed * 100 + k), str(n_cases // shards)],
                                              env=env, stdout=subprocess.PIPE, stderr=subprocess.PIPE, text=True))
            rcs = [p.wait() for p in procs]
            n_addr, addr = _reports(logdir, "AddressSanitizer")
            n_leak, leak = _reports(logdir, "leak of")
            cov["asan"] = {"generations": n_cases, "shards": shards, "exit_codes": sorted(set(rcs)),
                           "address_reports": n_addr, "leak_reports": n_leak, "build_and_run_s": round(time.time() - t0, 1)}
            if pid == "C09":
                for frame, block in list(addr.items())[:5]:
                    violate("C09:asan:" + frame, "AddressSanitizer report in the plain generation workload: " + block.strip().splitlines()[0][:200],
                            {"report": block[:3000]})
                bad = [rc for rc in rcs if rc not in (0,)]
                if bad and not addr:
                    res["inconclusive"].append("ASan workload shards exited with %s without a parsable report" % sorted(set(bad)))
            else:
                for frame, block in list(leak.items())[:5]:
                    if "pickle_fuzzer::" in block:
                        violate("C14:lsan:" + frame, "LeakSanitizer: " + block.strip().splitlines()[0][:200], {"report": block[:3000]})
        # valgrind memcheck on the plain release harness
        t0 = time.time()
        n_vg = 16000
        shards = 16
        procs = []
        vdir = os.path.join(out, "vg-logs-" + pid)
        shutil.rmtree(vdir, ignore_errors=True)
        os.makedirs(vdir)
        for k in range(shards):
            cmd = ["valgrind", "--quiet", "--error-exitcode=9", "--log-file=%s/vg.%d" % (vdir, k)]
            if pid == "C14":
                cmd += ["--leak-check=full", "--show-leak-kinds=definite,indirect", "--errors-for-leak-kinds=definite,indirect"]
            else:
                cmd += ["--leak-check=no"]
            cmd += [pfv, "child", "sanwork", "single", str(seed * 100 + 50 + k), str(n_vg // shards)]
            procs.append(subprocess.Popen(cmd, stdout=subprocess.PIPE, stderr=subprocess.PIPE, text=True))
        rcs = [p.wait() for p in procs]
        text = ""
        for f in glob.glob(os.path.join(vdir, "*")):
            text += open(f, errors="replace").read()
        n_err = len(re.findall(r"Invalid (read|write)|uninitialised|definitely lost|indirectly lost", text))
        cov["valgrind"] = {"generations": n_vg, "shards": shards, "exit_codes": sorted(set(rcs)), "error_lines": n_err,
                           "run_s": round(time.time() - t0, 1)}
        if any(rc == 9 for rc in rcs):
            frames = sorted(set(re.findall(r"pickle_fuzzer::[A-Za-z0-9_:<>]+", text)))[:5]
            if pid == "C14" and re.search(r"(definitely|indirectly) lost", text):
                violate("C14:memcheck:" + (frames[0] if frames else "?"), "valgrind memcheck reports lost blocks after the generation workload",
                        {"report": text[:4000]})
            elif pid == "C09" and re.search(r"Invalid (read|write)|uninitialised", text):
                violate("C09:memcheck:" + (frames[0] if frames else "?"), "valgrind memcheck reports a memory error in the generation workload",
                        {"report": text[:4000]})
        elif any(rc not in (0, 9) for rc in rcs):
            res["inconclusive"].append("valgrind shards exited with %s" % sorted(set(rcs)))

    if pid == "C14":
        # Miri smoke: UB in dependencies / a third leak opinion on tiny generations (slow: the
        # stdlib table is parsed under the interpreter when GLOBAL/INST is drawn)
        t0 = time.time()
        procs = []
        n_miri = 8
        for k in range(n_miri):
            env = dict(os.environ, CARGO_NET_OFFLINE="true", MIRIFLAGS="-Zmiri-disable-isolation",
                       CARGO_TARGET_DIR=os.path.join(paths["build"], "miri-target"))
            procs.append(subprocess.Popen(["cargo", "+nightly", "miri", "run", "--offline", "--", "child", "sanwork", "tiny", str(seed * 10 + k), "2"],
                                          cwd=os.path.join(paths["verif"], "harness"), env=env, stdout=subprocess.PIPE, stderr=subprocess.PIPE, text=True))
            if k == 0:
                # let the first one build the sysroot before the others start
                try:
                    procs[0].wait(timeout=900)
                except subprocess.TimeoutExpired:
                    pass
        done, ub = 0, []
        for p in procs:
            try:
                o, e = p.communicate(timeout=1500)
            except subprocess.TimeoutExpired:
                p.kill()
                continue
            if p.returncode == 0 and "sanwork tiny" in o:
                done += 1
            elif "Undefined Behavior" in e or "memory leaked" in e:
                ub.append(e[-2500:])
        cov["miri"] = {"processes": n_miri, "completed": done, "ub_or_leak_reports": len(ub), "run_s": round(time.time() - t0, 1)}
        for e in ub[:3]:
            if "memory leaked" in e:
                violate("C14:miri:leak", "Miri reports leaked memory after tiny generations", {"report": e})

    if pid == "C07":
        t0 = time.time()
        exe, err = _build(paths, "tsan", "-Zsanitizer=thread", ["-Zbuild-std"])
        if exe is None:
            res["inconclusive"].append("TSan build failed: " + err[-300:])
        else:
            logdir = os.path.join(out, "tsan-logs")
            shutil.rmtree(logdir, ignore_errors=True)
            os.makedirs(logdir)
            rcs = []
            for k in range(3):
                env = dict(os.environ, TSAN_OPTIONS="halt_on_error=0:log_path=%s/tsan.%d" % (logdir, k))
                rc, o, e = _run([exe, "child", "sanwork", "threads", str(seed + k), "150"], env=env, timeout=3000)
                rcs.append(rc)
            n_rep, rep = _reports(logdir, "ThreadSanitizer")
            cov["tsan"] = {"runs": 3, "threads": 8, "cases_per_run": 150, "exit_codes": rcs, "reports": n_rep,
                           "build_and_run_s": round(time.time() - t0, 1)}
            for frame, block in list(rep.items())[:5]:
                violate("C07:tsan:" + frame, "ThreadSanitizer report in the 8-thread generation workload: " + block.strip().splitlines()[0][:200],
                        {"report": block[:3000]})
            if any(rc == 7 for rc in rcs):
                violate("C07:tsan_workload:mismatch", "threads produced different bytes for equal cases under the TSan build", {})
    return res
