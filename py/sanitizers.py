#!/usr/bin/env python3
"""thorough-tier second opinions (placeholder until the sanitizer builds are wired in)."""
def run(pid, tier, seed, paths):
    return {"violations_detail": [], "inconclusive": [], "coverage": {"note": "not run"}}
