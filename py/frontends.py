#!/usr/bin/env python3
"""W9 front-end driver: C13 (CLI, batch mode, scripts/action-run.sh, Python bindings equal the
library) and the Python layer of C08 (PickleMutator / generate_from_bytes reuse).

O6: the option -> library-configuration mapping below is written from the documentation
(README, --help, action.yml, _native.pyi), independently of src/main.rs and src/python.rs.
Library bytes come from `pfv libgen` (the harness calling the Rust library directly).
"""
import hashlib, itertools, json, os, random, shutil, subprocess, sys, tempfile
from concurrent.futures import ThreadPoolExecutor

SAFE_ALL = ["bitflip", "boundary", "offbyone", "stringlen", "character", "typeconfusion"]
KINDS = ["bitflip", "boundary", "offbyone", "stringlen", "character", "memoindex", "typeconfusion"]


# ------------------------------------------------------------------ O6 mapping

def map_options(o):
    """documented meaning of a front-end option vector -> list of acceptable library configs
    (more than one where the documentation leaves the meaning open)."""
    seed = o.get("seed")
    if seed is None:
        return None  # unseeded output is not reproducible; not compared here
    proto = o["protocol"] if o.get("protocol") is not None else seed % 6
    muts = list(o.get("mutators") or [])
    unsafe = bool(o.get("unsafe"))
    if "all" in muts:
        muts = SAFE_ALL + (["memoindex"] if unsafe else [])
    rate = o.get("rate")
    if rate is None:
        rate = 0.1
    rate = min(1.0, max(0.0, rate))
    base = {
        "proto": proto, "entropy": {"seed": seed},
        "min": o.get("min", 60) if o.get("min") is not None else 60,
        "max": o.get("max", 300) if o.get("max") is not None else 300,
        "mutators": muts, "rate": rate, "raw_rate": False,
        "unsafe": unsafe, "ext": bool(o.get("ext")), "buf": bool(o.get("buf")),
    }
    cfgs = [base]
    if unsafe and not muts:
        # --unsafe-mutations without any mutator: documentation says it "allows mutations that may
        # produce invalid pickles"; with no mutator registered either reading of the library flag is accepted
        alt = dict(base)
        alt["unsafe"] = False
        cfgs.append(alt)
    return cfgs


def cli_argv(o, target):
    a = []
    if o.get("protocol") is not None:
        a += ["--protocol", str(o.get("protocol_text") or o["protocol"])]
    if o.get("seed") is not None:
        a += ["--seed", str(o.get("seed_text") or o["seed"])]
    if o.get("min") is not None:
        a += ["--min-opcodes", str(o["min"])]
    if o.get("max") is not None:
        a += ["--max-opcodes", str(o["max"])]
    if o.get("mutators"):
        a += ["--mutators"] + list(o["mutators"])
    if o.get("rate") is not None:
        a += ["--mutation-rate", o.get("rate_text") or repr(o["rate"])]
    if o.get("unsafe"):
        a += ["--unsafe-mutations"]
    if o.get("ext"):
        a += ["--allow-ext"]
    if o.get("buf"):
        a += ["--allow-buffer"]
    # `--mutators <MUTATOR>...` is variadic: a bare positional after it would be read as a mutator,
    # so the documented way to end the option list is `--`
    if target and not target[0].startswith("--"):
        return a + ["--"] + target
    return a + target


TRUTHY = ["true", "1", "yes", "True", "TRUE", "YES", "Yes"]
FALSY = ["false", "0", "no", "False", "off", "", "FALSE", "none", "None", "NONE", "null", "disabled", "No", "OFF", "n", "untrue"]


def action_env(o, sep, out_file=None, out_dir=None, samples=None, truth="true", falsy="false"):
    e = {}
    if o.get("protocol") is not None:
        e["INPUT_PROTOCOL"] = str(o.get("protocol_text") or o["protocol"])
    if o.get("seed") is not None:
        e["INPUT_SEED"] = str(o.get("seed_text") or o["seed"])
    if o.get("min") is not None:
        e["INPUT_MIN_OPCODES"] = str(o["min"])
    if o.get("max") is not None:
        e["INPUT_MAX_OPCODES"] = str(o["max"])
    if o.get("mutators"):
        e["INPUT_MUTATORS"] = sep.join(o["mutators"])
    if o.get("rate") is not None:
        e["INPUT_MUTATION_RATE"] = o.get("rate_text") or repr(o["rate"])
    e["INPUT_UNSAFE_MUTATIONS"] = truth if o.get("unsafe") else falsy
    e["INPUT_ALLOW_EXT"] = truth if o.get("ext") else falsy
    e["INPUT_ALLOW_BUFFER"] = truth if o.get("buf") else falsy
    if out_file:
        e["INPUT_OUTPUT_FILE"] = out_file
    if out_dir:
        e["INPUT_OUTPUT_DIR"] = out_dir
    if samples is not None:
        e["INPUT_SAMPLES"] = str(samples)
    return e


# ------------------------------------------------------------------ library side

class Lib:
    def __init__(self, pfv, out):
        self.pfv = pfv
        self.out = out
        self.cache = {}

    def gen_many(self, cfgs):
        """library bytes for a list of configs (one pfv process)"""
        todo = [c for c in cfgs if json.dumps(c, sort_keys=True) not in self.cache]
        if todo:
            path = os.path.join(self.out, "libgen-%d.json" % os.getpid())
            with open(path, "w") as f:
                json.dump(todo, f)
            r = subprocess.run([self.pfv, "libgen", path], stdout=subprocess.PIPE, stderr=subprocess.PIPE, text=True)
            os.remove(path)
            lines = r.stdout.splitlines()
            if r.returncode != 0 or len(lines) != len(todo):
                raise RuntimeError("pfv libgen failed: %s" % r.stderr[-400:])
            for c, line in zip(todo, lines):
                st, _, rest = line.partition(" ")
                self.cache[json.dumps(c, sort_keys=True)] = bytes.fromhex(rest) if st == "ok" else ("%s %s" % (st, rest)).encode()
        return [self.cache[json.dumps(c, sort_keys=True)] for c in cfgs]


# ------------------------------------------------------------------ option matrix

def option_matrix(rng, n_random):
    base = {"protocol": None, "seed": None, "min": None, "max": None, "mutators": None, "rate": None,
            "unsafe": False, "ext": False, "buf": False}
    out = []

    def mk(**kw):
        o = dict(base)
        o.update(kw)
        return o
    # one-factor sweeps
    for p in range(6):
        out.append(mk(protocol=p, seed=100 + p))
    for s in range(12):
        out.append(mk(seed=s))                      # protocol = seed % 6
        out.append(mk(seed=s, buf=True))            # ... and the opt-in flags apply to the derived protocol
        out.append(mk(seed=s + 12, ext=True, buf=True))
    # the extreme rates in every spelling a workflow file produces (mutation_rate: 0 arrives as "0")
    for rtxt, r in (("0", 0.0), ("0.", 0.0), ("0.0", 0.0), (".0", 0.0), ("1", 1.0), ("1.", 1.0), ("1.00", 1.0), (".5", 0.5), ("0.50", 0.5)):
        out.append(mk(protocol=2, seed=31, mutators=["boundary", "bitflip", "offbyone", "stringlen", "character"], rate=r, rate_text=rtxt))
        out.append(mk(seed=33, mutators=["all"], rate=r, rate_text=rtxt))
    for ptxt, p in (("05", 5), ("+5", 5), ("02", 2)):
        out.append(mk(protocol=p, protocol_text=ptxt, seed=7, ext=True, buf=True))
    out.append(mk(seed=2 ** 63 + 5))
    out.append(mk(seed=2 ** 64 - 1))
    out.append(mk(seed=2 ** 63))
    out.append(mk(seed=2 ** 64 - 6))
    # other spellings of the same number (the value is what counts)
    out.append(mk(seed=10, seed_text="010"))
    out.append(mk(seed=13, seed_text="0013"))
    out.append(mk(seed=8, seed_text="08"))
    out.append(mk(seed=9, seed_text="+9"))
    out.append(mk(seed=11, seed_text="011", min=20, max=40))
    for (a, b) in [(0, 0), (0, 1), (1, 1), (7, 3), (10, 50), (300, 60), (400, 401)]:
        out.append(mk(protocol=3, seed=7, min=a, max=b))
    out.append(mk(protocol=2, seed=9, min=5))
    out.append(mk(protocol=2, seed=9, max=70))
    for k in KINDS:
        for unsafe in (False, True):
            out.append(mk(protocol=4, seed=11, mutators=[k], rate=1.0, unsafe=unsafe))
            out.append(mk(protocol=1, seed=12, mutators=[k], rate=0.5, unsafe=unsafe))
    for unsafe in (False, True):
        for r in (0.0, 0.1, 0.5, 1.0, 1.5):
            out.append(mk(protocol=5, seed=13, mutators=["all"], rate=r, unsafe=unsafe))
        out.append(mk(seed=14, mutators=["all"], unsafe=unsafe))
        out.append(mk(seed=15, mutators=["all", "bitflip"], unsafe=unsafe, rate=1.0))
        out.append(mk(protocol=0, seed=16, mutators=["stringlen", "character", "boundary"], rate=1.0, unsafe=unsafe))
        out.append(mk(protocol=3, seed=17, mutators=["memoindex", "offbyone"], rate=1.0, unsafe=unsafe, min=200, max=400))
    out.append(mk(protocol=3, seed=18, mutators=["bitflip"]))          # default rate
    out.append(mk(protocol=3, seed=18, rate=1.0))                      # rate without mutators
    out.append(mk(protocol=4, seed=19, unsafe=True))                   # unsafe without mutators
    for ext, buf in itertools.product((False, True), repeat=2):
        out.append(mk(protocol=5, seed=20, ext=ext, buf=buf))
        out.append(mk(protocol=2, seed=21, ext=ext, buf=buf, mutators=["all"], rate=0.5, unsafe=True))
    # random combinations
    for _ in range(n_random):
        k = rng.randint(0, 3)
        muts = rng.sample(KINDS, k) if k else None
        if rng.random() < 0.2:
            muts = ["all"]
        out.append(mk(
            protocol=rng.choice([None, 0, 1, 2, 3, 4, 5]),
            seed=rng.choice([rng.randint(0, 50), rng.getrandbits(64)]),
            min=rng.choice([None, 0, 3, 60, 120]),
            max=rng.choice([None, 1, 50, 300, 90]),
            mutators=muts,
            rate=rng.choice([None, 0.0, 0.3, 1.0]),
            unsafe=rng.random() < 0.5, ext=rng.random() < 0.5, buf=rng.random() < 0.5))
    return out


# ------------------------------------------------------------------ helpers

class Ctx:
    def __init__(self, tier, seed, paths):
        self.tier, self.seed, self.paths = tier, seed, paths
        self.lib = Lib(paths["pfv"], paths["out"])
        self.viol = []
        self.inconclusive = []
        self.counters = {}
        self.evaluations = 0
        self.distinct = set()
        self.samples = []
        self.tmp = tempfile.mkdtemp(prefix="pfv-fe-", dir=paths["out"])
        os.makedirs(os.path.join(paths["out"], "replay"), exist_ok=True)

    def count(self, k, n=1):
        self.counters[k] = self.counters.get(k, 0) + n

    def violate(self, prop, signature, message, witness):
        n = len(self.viol)
        path = os.path.join(self.paths["out"], "replay", "%s-%d-fe%d.json" % (prop, self.seed, n))
        w = dict(witness)
        w.update({"kind": "c13" if prop == "C13" else "c08-python", "property": prop, "signature": signature, "message": message})
        with open(path, "w") as f:
            json.dump(w, f, indent=1)
        self.viol.append({"signature": signature, "message": message, "replay": path})

    def cleanup(self):
        shutil.rmtree(self.tmp, ignore_errors=True)


def head(b):
    return b[:48].hex() if isinstance(b, (bytes, bytearray)) else repr(b)


def compare(ctx, prop, frontend, sig_detail, got, wants, witness):
    """got bytes vs acceptable library results"""
    ctx.evaluations += 1
    ctx.count("comparisons_" + frontend)
    if got is not None and any(got == w for w in wants):
        if len(got) > 2:
            ctx.distinct.add(hashlib.sha1(frontend.encode() + json.dumps(witness.get("options"), sort_keys=True, default=str).encode()).hexdigest())
        return True
    w0 = wants[0]
    if got is None:
        msg = "%s produced no output (%s) where the library returns %d bytes" % (frontend, witness.get("status"), len(w0))
    else:
        msg = "%s bytes differ from the library: got %d bytes (%s..), library %d bytes (%s..)" % (
            frontend, len(got), head(got), len(w0), head(w0))
    witness = dict(witness, got_head=head(got) if got is not None else None, want_head=head(w0))
    ctx.violate(prop, "%s:%s:%s" % (prop, frontend, sig_detail), msg + " for " + json.dumps(witness.get("options"), default=str), witness)
    return False


def sig_of(o):
    parts = []
    if o.get("protocol") is None:
        parts.append("seedproto")
    if o.get("mutators"):
        parts.append("mut=" + "+".join(o["mutators"]))
    if o.get("rate") is not None:
        parts.append("rate")
    for k in ("unsafe", "ext", "buf"):
        if o.get(k):
            parts.append(k)
    if o.get("min") is not None or o.get("max") is not None:
        parts.append("range")
    return ",".join(parts) or "plain"


# ------------------------------------------------------------------ CLI single-file + batch

def run_cli(ctx, argv, env=None):
    e = dict(os.environ)
    if env:
        e.update(env)
    r = subprocess.run([ctx.paths["cli"]] + argv, stdout=subprocess.PIPE, stderr=subprocess.PIPE, env=e, text=True)
    return r


def check_cli(ctx, opts):
    def one(i_o):
        i, o = i_o
        path = os.path.join(ctx.tmp, "s%d.pkl" % i)
        r = run_cli(ctx, cli_argv(o, [path]))
        got = open(path, "rb").read() if os.path.exists(path) else None
        return i, o, r.returncode, got, r.stderr[-300:]
    cfgs_all = []
    for o in opts:
        cfgs_all.extend(map_options(o))
    ctx.lib.gen_many(cfgs_all)
    with ThreadPoolExecutor(16) as ex:
        results = list(ex.map(one, enumerate(opts)))
    for i, o, rc, got, err in results:
        wants = ctx.lib.gen_many(map_options(o))
        ok = compare(ctx, "C13", "cli", sig_of(o), got, wants,
                     {"frontend": "cli", "argv": cli_argv(o, ["OUT.pkl"]), "options": o, "status": "exit %s %s" % (rc, err.strip()[-200:])})
        if ok and rc != 0:
            ctx.violate("C13", "C13:cli:exit_status", "CLI wrote the right file but exited %d" % rc, {"options": o, "frontend": "cli"})
        if ok and len(ctx.samples) < 3:
            ctx.samples.append({"frontend": "cli", "argv": cli_argv(o, ["OUT.pkl"]), "library_config": map_options(o)[0], "bytes": len(got)})


def check_batch(ctx, opts, sample_counts, widths):
    jobs = []
    for i, o in enumerate(opts):
        for n in sample_counts:
            for w in widths:
                jobs.append((i, o, n, w))

    def one(job):
        i, o, n, w = job
        d = os.path.join(ctx.tmp, "b%d-%d-%s" % (i, n, w))
        argv = cli_argv(o, ["--dir", d, "--samples", str(n)])
        r = run_cli(ctx, argv, env={"RAYON_NUM_THREADS": str(w)})
        files = {}
        if os.path.isdir(d):
            for name in os.listdir(d):
                p = os.path.join(d, name)
                files[name] = open(p, "rb").read() if os.path.isfile(p) else None
        shutil.rmtree(d, ignore_errors=True)
        return job, r.returncode, files, r.stderr[-300:]
    cfgs_all = []
    for o in opts:
        cfgs_all.extend(map_options(o))
    ctx.lib.gen_many(cfgs_all)
    with ThreadPoolExecutor(8) as ex:
        results = list(ex.map(one, jobs))
    for (i, o, n, w), rc, files, err in results:
        wants = ctx.lib.gen_many(map_options(o))
        expect_names = {"%d.pkl" % k for k in range(n)}
        wit = {"frontend": "batch", "argv": cli_argv(o, ["--dir", "DIR", "--samples", str(n)]), "options": o,
               "samples": n, "rayon_threads": w, "status": "exit %s %s" % (rc, err.strip()[-200:])}
        ctx.evaluations += 1
        ctx.count("batch_runs")
        if set(files) != expect_names:
            ctx.violate("C13", "C13:batch:file_set", "batch mode wrote %s, expected exactly 0.pkl..%d.pkl (exit %d)" % (
                sorted(files)[:8], n - 1, rc), wit)
            continue
        if rc != 0:
            ctx.violate("C13", "C13:batch:exit_status", "batch mode wrote all %d files but exited %d" % (n, rc), wit)
            continue
        for name in sorted(files):
            if not compare(ctx, "C13", "batch", sig_of(o), files[name], wants, dict(wit, file=name)):
                break
        ctx.count("batch_files_compared", n)


def check_batch_faults(ctx):
    """exit status must be non-zero when a sample cannot be written, and the rest is still exact"""
    for n, bad in [(8, 3), (5, 0), (16, 15)]:
        d = os.path.join(ctx.tmp, "fault-%d" % n)
        os.makedirs(os.path.join(d, "%d.pkl" % bad))       # a directory where a file must go
        o = {"protocol": 3, "seed": 77}
        r = run_cli(ctx, cli_argv(o, ["--dir", d, "--samples", str(n)]))
        ctx.evaluations += 1
        ctx.count("batch_fault_injections")
        wit = {"frontend": "batch", "fault": "directory named %d.pkl pre-created" % bad, "options": o, "samples": n}
        if r.returncode == 0:
            ctx.violate("C13", "C13:batch:fault_exit0", "batch mode exited 0 although %d.pkl could not be written" % bad, wit)
        want = ctx.lib.gen_many(map_options(o))
        for k in range(n):
            if k == bad:
                continue
            p = os.path.join(d, "%d.pkl" % k)
            got = open(p, "rb").read() if os.path.isfile(p) else None
            if not compare(ctx, "C13", "batch", "fault_others", got, want, dict(wit, file="%d.pkl" % k)):
                break
        shutil.rmtree(d, ignore_errors=True)
    # exactly 256 samples fail: an exit status computed from the failure count must not wrap to 0
    d = os.path.join(ctx.tmp, "fault-256")
    for k in range(256):
        os.makedirs(os.path.join(d, "%d.pkl" % k))
    o = {"protocol": 2, "seed": 78, "min": 5, "max": 10}
    r = run_cli(ctx, cli_argv(o, ["--dir", d, "--samples", "300"]))
    ctx.evaluations += 1
    ctx.count("batch_fault_injections")
    written = [k for k in range(300) if os.path.isfile(os.path.join(d, "%d.pkl" % k))]
    if r.returncode == 0:
        ctx.violate("C13", "C13:batch:fault_exit0", "batch mode exited 0 although 256 of 300 samples could not be written (%d files present)" % len(written),
                    {"frontend": "batch", "fault": "directories named 0.pkl..255.pkl pre-created", "options": o, "samples": 300})
    if written != list(range(256, 300)):
        ctx.violate("C13", "C13:batch:file_set", "with 256 unwritable samples, the other 44 files were not all written", {"frontend": "batch", "options": o})
    shutil.rmtree(d, ignore_errors=True)
    # existing output directory is reused
    d = os.path.join(ctx.tmp, "exists")
    os.makedirs(d)
    o = {"protocol": 2, "seed": 5}
    r = run_cli(ctx, cli_argv(o, ["--dir", d, "--samples", "3"]))
    ctx.evaluations += 1
    if r.returncode != 0 or sorted(os.listdir(d)) != ["0.pkl", "1.pkl", "2.pkl"]:
        ctx.violate("C13", "C13:batch:existing_dir", "batch mode into an existing directory failed (exit %d)" % r.returncode, {"options": o})
    shutil.rmtree(d, ignore_errors=True)


def check_overwrite(ctx):
    """the destination already exists and is LONGER than the new output: the written file must
    still be exactly the library bytes (single file, batch directory, action wrapper)"""
    big = {"protocol": 2, "seed": 7, "min": 200, "max": 300}
    small = {"protocol": 2, "seed": 8, "min": 5, "max": 10}
    want_small = ctx.lib.gen_many(map_options(small))
    # single file
    path = os.path.join(ctx.tmp, "overwrite.pkl")
    run_cli(ctx, cli_argv(big, [path]))
    n_before = os.path.getsize(path) if os.path.exists(path) else 0
    r = run_cli(ctx, cli_argv(small, [path]))
    got = open(path, "rb").read() if os.path.exists(path) else None
    compare(ctx, "C13", "cli", "overwrite_longer_file", got, want_small,
            {"frontend": "cli", "options": small, "history": "same FILE written before with %d bytes" % n_before, "status": "exit %d" % r.returncode})
    # pre-existing garbage that is longer than any pickle
    path2 = os.path.join(ctx.tmp, "overwrite2.pkl")
    with open(path2, "wb") as f:
        f.write(b"\x00" * 100000)
    r = run_cli(ctx, cli_argv(small, [path2]))
    got = open(path2, "rb").read()
    compare(ctx, "C13", "cli", "overwrite_longer_file", got, want_small,
            {"frontend": "cli", "options": small, "history": "FILE pre-filled with 100000 bytes", "status": "exit %d" % r.returncode})
    # batch directory reused
    d = os.path.join(ctx.tmp, "overwrite-dir")
    run_cli(ctx, cli_argv(big, ["--dir", d, "--samples", "4"]))
    r = run_cli(ctx, cli_argv(small, ["--dir", d, "--samples", "4"]))
    for k in range(4):
        p = os.path.join(d, "%d.pkl" % k)
        got = open(p, "rb").read() if os.path.isfile(p) else None
        if not compare(ctx, "C13", "batch", "overwrite_longer_file", got, want_small,
                       {"frontend": "batch", "options": small, "history": "same --dir written before with longer files", "file": "%d.pkl" % k,
                        "status": "exit %d" % r.returncode}):
            break
    shutil.rmtree(d, ignore_errors=True)
    ctx.count("overwrite_histories", 3)


def check_environment(ctx):
    """unusual but legal environments: odd working directory with a relative output path, odd locale /
    environment variables, paths with spaces and non-ASCII characters, faults before anything is written"""
    o = {"protocol": 4, "seed": 23, "mutators": ["all"], "rate": 0.5, "unsafe": True, "ext": True, "buf": True}
    want = ctx.lib.gen_many(map_options(o))
    odd = os.path.join(ctx.tmp, "odd dir \u00e9\u4e2d 'q'")
    os.makedirs(odd, exist_ok=True)
    envs = [
        {"LANG": "C", "LC_ALL": "C"},
        {"LANG": "tr_TR.UTF-8", "LC_ALL": "tr_TR.UTF-8", "LC_NUMERIC": "de_DE.UTF-8"},
        {"TZ": "Pacific/Kiritimati", "NO_COLOR": "1", "RUST_BACKTRACE": "full", "RUST_LOG": "trace", "COLUMNS": "1"},
        {"HOME": "/nonexistent", "TMPDIR": "/nonexistent", "USER": "", "RAYON_NUM_THREADS": "1"},
    ]
    for k, extra in enumerate(envs):
        # relative output path, cwd = odd directory
        e = dict(os.environ)
        e.update(extra)
        name = "rel out %d.pkl" % k
        r = subprocess.run([ctx.paths["cli"]] + cli_argv(o, [name]), cwd=odd, env=e, stdout=subprocess.PIPE, stderr=subprocess.PIPE, text=True)
        p = os.path.join(odd, name)
        got = open(p, "rb").read() if os.path.isfile(p) else None
        compare(ctx, "C13", "cli", "environment", got, want, {"frontend": "cli", "options": o, "env": extra, "cwd": "directory with spaces / non-ASCII name",
                                                              "status": "exit %d %s" % (r.returncode, r.stderr.strip()[-150:])})
        d = "rel dir %d" % k
        r = subprocess.run([ctx.paths["cli"]] + cli_argv(o, ["--dir", d, "--samples", "5"]), cwd=odd, env=e, stdout=subprocess.PIPE, stderr=subprocess.PIPE, text=True)
        for j in range(5):
            p = os.path.join(odd, d, "%d.pkl" % j)
            got = open(p, "rb").read() if os.path.isfile(p) else None
            if not compare(ctx, "C13", "batch", "environment", got, want, {"frontend": "batch", "options": o, "env": extra, "file": "%d.pkl" % j,
                                                                             "status": "exit %d" % r.returncode}):
                break
    ctx.count("environment_variants", len(envs))
    # faults before anything can be written: the exit status must say so and nothing may be left behind
    missing = os.path.join(ctx.tmp, "no", "such", "parent")
    r = run_cli(ctx, cli_argv(o, [os.path.join(missing, "x.pkl")]))
    ctx.evaluations += 1
    if r.returncode == 0:
        ctx.violate("C13", "C13:cli:fault_exit0", "single-file mode exited 0 although the output file's directory does not exist", {"frontend": "cli", "options": o})
    r = run_cli(ctx, cli_argv(o, ["--dir", os.path.join(missing, "d"), "--samples", "3"]))
    ctx.evaluations += 1
    if r.returncode == 0:
        ctx.violate("C13", "C13:batch:fault_exit0", "batch mode exited 0 although the output directory could not be created", {"frontend": "batch", "options": o})
    # the output path is an existing directory
    r = run_cli(ctx, cli_argv(o, [odd]))
    ctx.evaluations += 1
    if r.returncode == 0:
        ctx.violate("C13", "C13:cli:fault_exit0", "single-file mode exited 0 although FILE is an existing directory", {"frontend": "cli", "options": o})


# ------------------------------------------------------------------ action wrapper

def check_action(ctx, opts, tagp="a"):
    script = os.path.join(ctx.paths["repo"], "scripts", "action-run.sh")
    bindir = os.path.join(ctx.tmp, "bin")
    os.makedirs(bindir, exist_ok=True)
    link = os.path.join(bindir, "pickle-fuzzer")
    if not os.path.exists(link):
        os.symlink(ctx.paths["cli"], link)
    jobs = []
    for i, o in enumerate(opts):
        for sep in (",", " ", ", "):
            if not o.get("mutators") and sep != ",":
                continue
            jobs.append((i, o, sep, "file"))
        jobs.append((i, o, ",", "dir"))
        jobs.append((i, o, ",", "args"))

    def one(job):
        i, o, sep, mode = job
        base_env = {k: v for k, v in os.environ.items() if not k.startswith("INPUT_")}
        base_env["PATH"] = bindir + os.pathsep + base_env.get("PATH", "")
        tag = "%s%d-%s-%s" % (tagp, i, {",": "c", " ": "s", ", ": "cs"}[sep], mode)
        files = {}
        if mode == "file":
            path = os.path.join(ctx.tmp, tag + ".pkl")
            env = dict(base_env, **action_env(o, sep, out_file=path, truth=TRUTHY[i % len(TRUTHY)], falsy=FALSY[i % len(FALSY)]))
            r = subprocess.run(["bash", script], env=env, stdout=subprocess.PIPE, stderr=subprocess.PIPE, text=True)
            files["out"] = open(path, "rb").read() if os.path.isfile(path) else None
        elif mode == "dir":
            d = os.path.join(ctx.tmp, tag)
            env = dict(base_env, **action_env(o, sep, out_dir=d, samples=3, truth=TRUTHY[(i + 3) % len(TRUTHY)], falsy=FALSY[(i + 2) % len(FALSY)]))
            r = subprocess.run(["bash", script], env=env, stdout=subprocess.PIPE, stderr=subprocess.PIPE, text=True)
            if os.path.isdir(d):
                for name in os.listdir(d):
                    files[name] = open(os.path.join(d, name), "rb").read()
            shutil.rmtree(d, ignore_errors=True)
        else:
            path = os.path.join(ctx.tmp, tag + ".pkl")
            argv = cli_argv(o, [path])
            # raw args are word-split by the wrapper: put the positional first so that a trailing
            # --mutators list cannot swallow it (that is plain CLI syntax, not the wrapper's job)
            # the wrapper word-splits the value on any run of blanks, tabs and newlines (a YAML
            # "args: |" block puts every option on its own line and ends with a newline)
            ws = [" ", "\n", "\t", "  ", " \n  ", "\n\n"][i % 6]
            raw = ws.join([path] + cli_argv(o, [])) + ("\n" if i % 2 else "")
            env = dict(base_env, INPUT_ARGS=raw, INPUT_SEED="999", INPUT_PROTOCOL="1")   # other inputs must be ignored
            r = subprocess.run(["bash", script], env=env, stdout=subprocess.PIPE, stderr=subprocess.PIPE, text=True)
            files["out"] = open(path, "rb").read() if os.path.isfile(path) else None
        return job, r.returncode, files, (r.stderr or "")[-300:]
    with ThreadPoolExecutor(16) as ex:
        results = list(ex.map(one, jobs))
    for (i, o, sep, mode), rc, files, err in results:
        wants = ctx.lib.gen_many(map_options(o))
        wit = {"frontend": "action-run.sh", "mode": mode, "separator": sep, "options": o,
               "env": action_env(o, sep, out_file="OUT.pkl" if mode == "file" else None, out_dir="DIR" if mode == "dir" else None),
               "status": "exit %s %s" % (rc, err.strip()[-200:])}
        detail = "%s:%s" % (mode, sig_of(o))
        if mode == "dir":
            ctx.evaluations += 1
            if set(files) != {"0.pkl", "1.pkl", "2.pkl"}:
                ctx.violate("C13", "C13:action:%s:file_set" % mode, "action wrapper (output_dir, samples=3) wrote %s (exit %d: %s)" % (
                    sorted(files), rc, err.strip()[-160:]), wit)
                continue
            for name in sorted(files):
                if not compare(ctx, "C13", "action", detail, files[name], wants, dict(wit, file=name)):
                    break
        else:
            ok = compare(ctx, "C13", "action", detail, files.get("out"), wants, wit)
            if ok and rc != 0:
                ctx.violate("C13", "C13:action:exit_status", "action wrapper wrote the right file but exited %d" % rc, wit)
    # wrapper edge cases
    base_env = {k: v for k, v in os.environ.items() if not k.startswith("INPUT_")}
    base_env["PATH"] = bindir + os.pathsep + base_env.get("PATH", "")
    r = subprocess.run(["bash", script], env=dict(base_env, INPUT_OUTPUT_FILE="x.pkl", INPUT_OUTPUT_DIR="d"),
                       stdout=subprocess.PIPE, stderr=subprocess.PIPE, text=True, cwd=ctx.tmp)
    ctx.evaluations += 1
    if r.returncode == 0 or os.path.exists(os.path.join(ctx.tmp, "x.pkl")):
        ctx.violate("C13", "C13:action:both_outputs", "wrapper accepted output_file together with output_dir", {"frontend": "action-run.sh"})
    r = subprocess.run(["bash", script], env=dict(base_env, INPUT_ARGS="--seed 1 --protocol 9 " + os.path.join(ctx.tmp, "bad.pkl")),
                       stdout=subprocess.PIPE, stderr=subprocess.PIPE, text=True)
    ctx.evaluations += 1
    if r.returncode == 0:
        ctx.violate("C13", "C13:action:args_exit", "wrapper exited 0 although pickle-fuzzer rejected the raw args", {"frontend": "action-run.sh"})


# ------------------------------------------------------------------ Python bindings

PY_DRIVER = r'''
import sys, json
sys.path.insert(0, sys.argv[1])
from pickle_fuzzer import Generator
jobs = json.load(open(sys.argv[2]))
out = []
for job in jobs:
    res = []
    try:
        if job.get("mutator"):
            from pickle_fuzzer.fuzzer import PickleMutator
            obj = PickleMutator(**job["ctor"])
        else:
            obj = Generator(**job["ctor"])
        gen = obj.generator if job.get("mutator") else obj     # PickleMutator exposes its Generator
        for call in job["calls"]:
            name, args = call[0], call[1:]
            if name == "generate":
                res.append(gen.generate().hex())
            elif name == "generate_from_bytes":
                res.append(gen.generate_from_bytes(bytes.fromhex(args[0])).hex())
            elif name == "set_opcode_range":
                gen.set_opcode_range(args[0], args[1]); res.append(None)
            elif name == "reset":
                (obj if hasattr(obj, "reset") else gen).reset(); res.append(None)
            elif name == "mutate":
                res.append(obj.mutate(bytes.fromhex(args[0]), args[1]).hex())
    except Exception as e:
        res.append("EXC %s: %s" % (type(e).__name__, e))
    out.append(res)
json.dump(out, sys.stdout)
'''


def run_python(ctx, jobs, interpreter):
    jp = os.path.join(ctx.tmp, "pyjobs-%d.json" % len(jobs))
    dp = os.path.join(ctx.tmp, "pydriver.py")
    with open(jp, "w") as f:
        json.dump(jobs, f)
    with open(dp, "w") as f:
        f.write(PY_DRIVER)
    r = subprocess.run([interpreter, dp, ctx.paths["pypkg"], jp], stdout=subprocess.PIPE, stderr=subprocess.PIPE, text=True)
    if r.returncode != 0:
        ctx.inconclusive.append("python driver failed under %s: %s" % (interpreter, r.stderr.strip()[-300:]))
        return None
    return json.loads(r.stdout)


def py_expected(job):
    """independent model of the documented Python API: list of (call index, library config or None)"""
    ctor = job["ctor"]
    proto = ctor.get("protocol", 3)
    seed = ctor.get("seed")
    lo, hi = 60, 300
    exp = []
    for call in job["calls"]:
        name = call[0]
        if name == "set_opcode_range":
            lo, hi = call[1], call[2]
            exp.append(None)
        elif name == "reset":
            exp.append(None)
        elif name == "generate":
            if seed is None:
                exp.append("unseeded")
            else:
                exp.append({"proto": proto, "entropy": {"seed": seed}, "min": lo, "max": hi, "mutators": [], "rate": 0.1,
                            "raw_rate": False, "unsafe": False, "ext": False, "buf": False})
        elif name in ("generate_from_bytes", "mutate"):
            exp.append({"proto": proto, "entropy": {"bytes_hex": call[1]}, "min": lo, "max": hi, "mutators": [], "rate": 0.1,
                        "raw_rate": False, "unsafe": False, "ext": False, "buf": False})
    return exp


def python_jobs(rng, n_random, mutator_jobs=True):
    jobs = []
    inputs = ["", "00", "ff" * 40, bytes(rng.getrandbits(8) for _ in range(300)).hex(), bytes(rng.getrandbits(8) for _ in range(1500)).hex()]
    for p in range(6):
        jobs.append({"ctor": {"protocol": p, "seed": 40 + p}, "calls": [["generate"]]})
        jobs.append({"ctor": {"protocol": p, "seed": 40 + p}, "calls": [["set_opcode_range", 10, 20], ["generate"]]})
        jobs.append({"ctor": {"protocol": p, "seed": 50 + p}, "calls": [["generate"], ["set_opcode_range", 5, 9], ["generate"], ["generate"]]})
        jobs.append({"ctor": {"protocol": p}, "calls": [["generate_from_bytes", inputs[3]], ["set_opcode_range", 100, 140], ["generate_from_bytes", inputs[3]]]})
        jobs.append({"ctor": {"protocol": p, "seed": 60}, "calls": [["generate_from_bytes", inputs[4]], ["reset"], ["generate"], ["generate_from_bytes", inputs[1]]]})
    for p in range(6):
        jobs.append({"ctor": {"protocol": p, "seed": 70 + p}, "calls": [["set_opcode_range", 5, 10], ["generate"], ["reset"], ["generate"], ["generate_from_bytes", inputs[3]]]})
        jobs.append({"ctor": {"protocol": p, "seed": 80 + p}, "calls": [["set_opcode_range", 100, 120], ["reset"], ["generate"]]})
    jobs.append({"ctor": {}, "calls": [["generate_from_bytes", inputs[2]]]})                      # default protocol 3
    jobs.append({"ctor": {"seed": 3}, "calls": [["generate"]]})
    jobs.append({"ctor": {"protocol": 2, "seed": 2 ** 64 - 1}, "calls": [["set_opcode_range", 0, 0], ["generate"]]})
    jobs.append({"ctor": {"protocol": 2, "seed": 8}, "calls": [["set_opcode_range", 30, 10], ["generate"]]})
    for _ in range(n_random):
        calls = []
        for _ in range(rng.randint(1, 6)):
            c = rng.random()
            if c < 0.3:
                calls.append(["generate"])
            elif c < 0.6:
                calls.append(["generate_from_bytes", rng.choice(inputs)])
            elif c < 0.8:
                calls.append(["set_opcode_range", rng.choice([0, 5, 60]), rng.choice([1, 30, 300])])
            else:
                calls.append(["reset"])
        jobs.append({"ctor": {"protocol": rng.randint(0, 5), "seed": rng.randint(0, 2 ** 40)}, "calls": calls})
    mjobs = []
    if mutator_jobs:
        for p in range(6):
            mjobs.append({"mutator": True, "ctor": {"protocol": p}, "calls": [["mutate", inputs[3], 100000], ["mutate", inputs[3], 100000], ["mutate", inputs[4], 64], ["mutate", inputs[0], 10]]})
        mjobs.append({"mutator": True, "ctor": {"protocol": 4, "seed": 5}, "calls": [["mutate", inputs[4], 5], ["reset"], ["mutate", inputs[4], 1 << 20]]})
        for p in range(6):
            # a call whose size limit cannot be met, then ordinary calls on the same mutator
            mjobs.append({"mutator": True, "ctor": {"protocol": p}, "calls": [["mutate", inputs[3], 10000], ["mutate", inputs[4], 16], ["mutate", inputs[3], 10000], ["mutate", inputs[4], 8], ["mutate", inputs[4], 1 << 20]]})
        # several PickleMutator objects with the same constructor arguments in one process: what one
        # of them is told (set_opcode_range through its generator) is nobody else's business
        for p in range(6):
            for ctor in ({"protocol": p, "seed": 90 + p}, {"protocol": p}):
                mjobs.append({"mutator": True, "ctor": dict(ctor), "calls": [["set_opcode_range", 5, 10], ["mutate", inputs[3], 1 << 20]]})
                mjobs.append({"mutator": True, "ctor": dict(ctor), "calls": [["mutate", inputs[3], 1 << 20], ["generate_from_bytes", inputs[4]]]})
                mjobs.append({"mutator": True, "ctor": dict(ctor), "calls": [["set_opcode_range", 100, 130], ["generate_from_bytes", inputs[3]], ["mutate", inputs[4], 1 << 20]]})
            mjobs.append({"mutator": True, "ctor": {"protocol": p, "seed": 90 + p}, "calls": [["generate"], ["generate"]]})
    return jobs, mjobs


def judge_python(ctx, prop, jobs, results, frontend, reuse_only=False):
    cfgs = []
    for job in jobs:
        for e in py_expected(job):
            if isinstance(e, dict):
                cfgs.append(e)
    ctx.lib.gen_many(cfgs)
    for job, res in zip(jobs, results):
        exp = py_expected(job)
        gen_calls = 0
        for k, (call, e) in enumerate(zip(job["calls"], exp)):
            if k >= len(res):
                ctx.violate(prop, "%s:%s:exception" % (prop, frontend), "python call sequence stopped early: %s" % (res[-1] if res else "?"),
                            {"frontend": frontend, "job": job})
                break
            got = res[k]
            if isinstance(got, str) and got.startswith("EXC"):
                ctx.violate(prop, "%s:%s:exception" % (prop, frontend), "python call raised: %s" % got, {"frontend": frontend, "job": job, "call": k})
                break
            if not isinstance(e, dict):
                continue
            gen_calls += 1
            if reuse_only and gen_calls < 2:
                continue
            want = ctx.lib.gen_many([e])[0]
            if call[0] == "mutate" and len(want) > call[2]:
                want = want[:call[2]]
            detail = call[0]
            if any(c[0] == "set_opcode_range" for c in job["calls"][:k]):
                detail += ":after_set_opcode_range"
            if gen_calls >= 2:
                detail += ":reused"
            if not compare(ctx, prop, frontend, detail, bytes.fromhex(got), [want], {"frontend": frontend, "options": {"job": job, "call": k}}):
                break
        if len(ctx.samples) < 5 and job.get("calls"):
            ctx.samples.append({"frontend": frontend, "ctor": job["ctor"], "calls": [[c[0]] + [x if not isinstance(x, str) else x[:16] + ".." for x in c[1:]] for c in job["calls"]]})


# ------------------------------------------------------------------ entry points

def check_c13(tier, seed, paths):
    thorough = tier == "thorough"
    rng = random.Random(seed)
    ctx = Ctx(tier, seed, paths)
    try:
        opts = option_matrix(rng, 400 if thorough else 60)
        seeded = [o for o in opts if o.get("seed") is not None]
        check_cli(ctx, seeded)
        batch_opts = seeded[::7] if not thorough else seeded[::3]
        check_batch(ctx, batch_opts, [1, 7] if not thorough else [0, 1, 7, 64], [1, 16] if not thorough else [1, 2, 3, 16])
        check_batch_faults(ctx)
        check_overwrite(ctx)
        check_environment(ctx)
        action_opts = [o for o in seeded if not (o.get("mutators") and len(o["mutators"]) > 3)]
        check_action(ctx, action_opts[::3] if not thorough else action_opts)
        # wrapper + mutators + output_file with no later flag (the positional directly follows the mutator list)
        special = [{"protocol": 3, "seed": 31, "mutators": ["bitflip"]},
                   {"seed": 32, "mutators": ["boundary", "offbyone"]},
                   {"protocol": 0, "seed": 33, "mutators": ["all"]}]
        for o in special:
            for k in ("min", "max", "rate", "unsafe", "ext", "buf"):
                o.setdefault(k, None if k in ("min", "max", "rate") else False)
        check_action(ctx, special, tagp="sp")
        jobs, mjobs = python_jobs(rng, 300 if thorough else 40)
        res = run_python(ctx, jobs, "python3")
        if res is not None:
            judge_python(ctx, "C13", jobs, res, "python")
        res = run_python(ctx, mjobs, "python3-vt")     # PickleMutator imports atheris
        if res is not None:
            judge_python(ctx, "C13", mjobs, res, "python_mutator")
        for k in ("comparisons_cli", "comparisons_batch", "comparisons_action", "comparisons_python"):
            if ctx.counters.get(k, 0) < 20:
                ctx.inconclusive.append("too few %s (%d)" % (k, ctx.counters.get(k, 0)))
    finally:
        ctx.cleanup()
    return {
        "coverage": {
            "evaluations": ctx.evaluations,
            "distinct_nontrivial": len(ctx.distinct),
            "rule": "cases = front-end invocations (CLI single file, CLI batch for N in {1,7[,64]} under several RAYON_NUM_THREADS incl. injected write faults, scripts/action-run.sh in output_file / output_dir / raw-args mode with comma-, space- and comma+space-separated mutators, Python Generator call sequences, PickleMutator.mutate) over a one-factor sweep of every option plus random combinations; each produced file / return value is compared byte-for-byte with `pfv libgen` for the independently mapped configuration; distinct = distinct (front end, option vector) whose compared output is longer than two bytes",
            "samples": ctx.samples,
            "counters": ctx.counters,
        },
        "assumptions": [
            "the option mapping O6 follows README / --help / action.yml / _native.pyi; where they leave a combination open (--unsafe-mutations with no mutator) either reading is accepted",
            "action.yml's expression layer and scripts/action-install.sh (release download) cannot run offline; only scripts/action-run.sh with the locally built binary on PATH is exercised",
            "unseeded runs are not byte-comparable and are not claimed here",
        ],
        "violations_detail": ctx.viol,
        "inconclusive": ctx.inconclusive,
    }


def check_c08_python(tier, seed, paths):
    thorough = tier == "thorough"
    rng = random.Random(seed ^ 0xC08)
    ctx = Ctx(tier, seed, paths)
    try:
        inputs = [bytes(rng.getrandbits(8) for _ in range(n)).hex() for n in (0, 7, 200, 1200)]
        jobs, mjobs = [], []
        for p in range(6):
            for x in inputs:
                # fuzz_pickle_parser's pattern: one Generator, generate_from_bytes per input, no reset
                jobs.append({"ctor": {"protocol": p}, "calls": [["generate_from_bytes", x], ["generate_from_bytes", x], ["generate_from_bytes", inputs[2]], ["generate_from_bytes", x]]})
                mjobs.append({"mutator": True, "ctor": {"protocol": p}, "calls": [["mutate", x, 1 << 20], ["mutate", x, 1 << 20], ["mutate", inputs[3], 1 << 20], ["mutate", x, 1 << 20]]})
            jobs.append({"ctor": {"protocol": p, "seed": 9}, "calls": [["generate"], ["generate"], ["generate_from_bytes", inputs[2]], ["generate"]]})
            # earlier calls with size limits that cannot be met must not influence later ones
            mjobs.append({"mutator": True, "ctor": {"protocol": p}, "calls": [["mutate", inputs[2], 10000], ["mutate", inputs[3], 16], ["mutate", inputs[2], 10000], ["mutate", inputs[3], 4], ["mutate", inputs[3], 1 << 20]]})
        if thorough:
            for _ in range(200):
                calls = [rng.choice([["generate"], ["generate_from_bytes", rng.choice(inputs)], ["reset"]]) for _ in range(rng.randint(2, 8))]
                jobs.append({"ctor": {"protocol": rng.randint(0, 5), "seed": rng.randint(0, 999)}, "calls": calls})
        res = run_python(ctx, jobs, "python3")
        if res is not None:
            judge_python(ctx, "C08", jobs, res, "python", reuse_only=True)
        res = run_python(ctx, mjobs, "python3-vt")
        if res is not None:
            judge_python(ctx, "C08", mjobs, res, "python_mutator", reuse_only=True)
        if ctx.evaluations < 50:
            ctx.inconclusive.append("too few Python-layer reuse comparisons (%d)" % ctx.evaluations)
    finally:
        ctx.cleanup()
    return {"violations_detail": ctx.viol, "inconclusive": ctx.inconclusive, "evaluations": ctx.evaluations,
            "coverage": {"python_reuse_comparisons": ctx.evaluations, "counters": ctx.counters, "samples": ctx.samples[:2]}}


PY_LEAK_DRIVER = r'''
import ctypes, gc, json, sys
sys.path.insert(0, sys.argv[1])
libc = ctypes.CDLL("libc.so.6")
class MI(ctypes.Structure):
    _fields_ = [(n, ctypes.c_size_t) for n in ("arena", "ordblks", "smblks", "hblks", "hblkhd", "usmblks", "fsmblks", "uordblks", "fordblks", "keepcost")]
libc.mallinfo2.restype = MI
def used():
    gc.collect()
    m = libc.mallinfo2()
    return m.uordblks + m.hblkhd
from pickle_fuzzer import Generator
mode, proto, n = sys.argv[2], int(sys.argv[3]), int(sys.argv[4])
data = bytes((i * 37 + 11) % 256 for i in range(1500))
def work(k):
    if mode == "reuse":
        g = Generator(protocol=proto, seed=3)
        for i in range(k):
            g.generate(); g.generate_from_bytes(data); g.reset(); g.set_opcode_range(10 + i % 50, 80 + i % 200)
    elif mode == "fresh":
        for i in range(k):
            g = Generator(protocol=proto, seed=i)
            g.generate(); g.generate_from_bytes(data[: i % 1500])
            del g
    else:
        from pickle_fuzzer.fuzzer import PickleMutator
        m = PickleMutator(protocol=proto)
        for i in range(k):
            m.mutate(data[: (i * 7) % 1500], 10 + (i % 3) * 5000)
work(n // 4)          # warm-up
a = used(); work(n); b = used(); work(2 * n); c = used()
json.dump({"after_warmup": a, "after_n": b, "after_3n": c, "n": n}, sys.stdout)
'''


def check_c14_python(tier, seed, paths):
    """live malloc'd bytes of the Python process (glibc mallinfo2: in-use bytes incl. mmapped blocks)
    after warm-up, after n and after 3n further calls through the built extension: must not grow
    linearly. Rust-side allocations of the extension go through malloc, so a native leak shows here."""
    thorough = tier == "thorough"
    ctx = Ctx(tier, seed, paths)
    cov = {"runs": []}
    try:
        dp = os.path.join(ctx.tmp, "pyleak.py")
        with open(dp, "w") as f:
            f.write(PY_LEAK_DRIVER)
        n = 60000 if thorough else 12000
        jobs = [("reuse", p, "python3") for p in ((0, 2, 4, 5) if not thorough else range(6))] + \
               [("fresh", p, "python3") for p in ((3, 5) if not thorough else range(6))] + \
               [("mutator", p, "python3-vt") for p in ((4,) if not thorough else (1, 4, 5))]

        def one(job):
            mode, p, interp = job
            r = subprocess.run([interp, dp, paths["pypkg"], mode, str(p), str(n)], stdout=subprocess.PIPE, stderr=subprocess.PIPE, text=True)
            return job, r
        with ThreadPoolExecutor(8) as ex:
            results = list(ex.map(one, jobs))
        for (mode, p, interp), r in results:
            ctx.evaluations += 1
            if r.returncode != 0:
                ctx.inconclusive.append("python leak driver failed (%s P%d): %s" % (mode, p, r.stderr.strip()[-200:]))
                continue
            m = json.loads(r.stdout)
            g1 = m["after_n"] - m["after_warmup"]
            g2 = m["after_3n"] - m["after_n"]
            cov["runs"].append({"mode": mode, "protocol": p, "calls": 3 * n, "growth_first_n": g1, "growth_next_2n": g2})
            per_call = g2 / (2.0 * n)
            # a leak grows linearly: second window (2n calls) about twice the first, and more than 16 bytes per call
            if g1 > 16 * n and g2 > 16 * 2 * n and 1.2 < (g2 / max(g1, 1)) < 3.5:
                ctx.violate("C14", "C14:python:%s" % mode,
                            "Python front end (%s, protocol %d): malloc'd bytes in use grew by %d over %d calls and by %d over the next %d (%.1f bytes per call, linear)" % (
                                mode, p, g1, n, g2, 2 * n, per_call),
                            {"frontend": "python", "mode": mode, "protocol": p, "measurements": m})
    finally:
        ctx.cleanup()
    return {"violations_detail": ctx.viol, "inconclusive": ctx.inconclusive, "evaluations": ctx.evaluations, "coverage": cov}


if __name__ == "__main__":
    if len(sys.argv) >= 3 and sys.argv[1] == "--replay":
        w = json.load(open(sys.argv[2]))
        print("replay (descriptive):", w.get("message"))
        print(json.dumps({k: w[k] for k in w if k not in ("message",)}, indent=1, default=str)[:3000])
        print("re-run `./check %s quick` to re-execute this front-end case against the current tree" % w.get("property"))
        sys.exit(0)
