#!/usr/bin/env python3
"""Confirm a sub-agent's seeded change in a fresh scratch worktree and file it under /verif/seeded/<name>/.

accept_seed.py <agent-worktree> <name> <property> "<what it needs to manifest>"

Confirms: (1) patch applies to /repo HEAD, (2) existing suite passes with the patch, (3) the demonstration
fails with the patch, (4) the demonstration passes without it. Removes the scratch worktree afterwards.
"""
import glob, json, os, shutil, subprocess, sys

REPO = "/repo"
VERIF = os.path.dirname(os.path.dirname(os.path.abspath(__file__)))


def sh(cmd, cwd=None):
    return subprocess.run(cmd, cwd=cwd, stdout=subprocess.PIPE, stderr=subprocess.STDOUT, text=True, env=dict(os.environ, CARGO_NET_OFFLINE="true"))


FEAT = (["--features", os.environ["SEED_FEATURES"]] if os.environ.get("SEED_FEATURES") else [])
# e.g. SEED_TEST_ARGS="--test-threads=1" for demonstrations built on a process-wide counting allocator
TARGS = (["--"] + os.environ["SEED_TEST_ARGS"].split() if os.environ.get("SEED_TEST_ARGS") else [])


def main():
    wt, name, prop, needs = sys.argv[1:5]
    seeded = os.path.join(wt, "SEEDED")
    patch = os.path.join(seeded, "patch.diff")
    demos = [f for f in glob.glob(os.path.join(seeded, "*")) if not f.endswith(("patch.diff", "notes.md"))]
    rs = [f for f in demos if os.path.basename(f).startswith("seeded_demo") and f.endswith(".rs")]
    scratch = "/tmp/seedverify/" + name
    shutil.rmtree(scratch, ignore_errors=True)
    os.makedirs("/tmp/seedverify", exist_ok=True)
    r = sh(["git", "-C", REPO, "worktree", "add", "--detach", scratch, "HEAD"])
    assert r.returncode == 0, r.stdout
    ran = []
    ok = True
    try:
        r = sh(["git", "apply", patch], cwd=scratch)
        ran.append("git apply patch.diff -> %d" % r.returncode)
        assert r.returncode == 0, "patch does not apply: " + r.stdout
        r = sh(["cargo", "test", "--workspace", "--no-fail-fast", "--offline"], cwd=scratch)
        suite_ok = r.returncode == 0
        ran.append("cargo test --workspace --no-fail-fast --offline (with patch) -> exit %d" % r.returncode)
        if not suite_ok:
            print(r.stdout[-1500:])
        ok &= suite_ok
        if rs:
            # some demonstrations include_str! helper files from ../SEEDED/
            shutil.copytree(seeded, os.path.join(scratch, "SEEDED"), dirs_exist_ok=True)
            for f in rs:
                shutil.copy(f, os.path.join(scratch, "tests", os.path.basename(f)))
            # data / helper files the demonstration expects next to itself in tests/
            for f in demos:
                if os.path.isfile(f) and f not in rs and not os.path.exists(os.path.join(scratch, "tests", os.path.basename(f))):
                    shutil.copy(f, os.path.join(scratch, "tests", os.path.basename(f)))
            tests = [os.path.splitext(os.path.basename(f))[0] for f in rs]
            with_patch = []
            for t in tests:
                r = sh(["cargo", "test", "--offline"] + FEAT + ["--test", t] + TARGS, cwd=scratch)
                with_patch.append(r.returncode)
                ran.append("cargo test --offline --test %s %s (with patch) -> exit %d" % (t, " ".join(TARGS), r.returncode))
            ok &= all(c != 0 for c in with_patch)
            r = sh(["git", "apply", "-R", patch], cwd=scratch)
            assert r.returncode == 0, r.stdout
            for t in tests:
                r = sh(["cargo", "test", "--offline"] + FEAT + ["--test", t] + TARGS, cwd=scratch)
                ran.append("cargo test --offline --test %s %s (without patch) -> exit %d" % (t, " ".join(TARGS), r.returncode))
                if r.returncode != 0:
                    print(r.stdout[-1500:])
                ok &= r.returncode == 0
        else:
            py = [f for f in demos if os.path.basename(f).startswith("seeded_demo") and f.endswith(".py")]
            if py:
                # script demonstration: run from the scratch root against the freshly built CLI
                shutil.copytree(seeded, os.path.join(scratch, "SEEDED"), dirs_exist_ok=True)
                for label, revert in (("with patch", False), ("without patch", True)):
                    if revert:
                        r = sh(["git", "apply", "-R", patch], cwd=scratch)
                        assert r.returncode == 0, r.stdout
                    r = sh(["cargo", "build", "--offline"], cwd=scratch)
                    assert r.returncode == 0, r.stdout[-800:]
                    for f in py:
                        r = sh(["python3", os.path.join("SEEDED", os.path.basename(f))], cwd=scratch)
                        ran.append("cargo build --offline && python3 SEEDED/%s (%s) -> exit %d" % (os.path.basename(f), label, r.returncode))
                        ok &= (r.returncode == 0) if revert else (r.returncode != 0)
            else:
                print("no .rs / .py demonstration; files:", demos)
                ok = False
    finally:
        sh(["git", "-C", REPO, "worktree", "remove", "--force", scratch])
        shutil.rmtree(scratch, ignore_errors=True)
    print("\n".join(ran))
    if not ok:
        print("NOT CONFIRMED")
        sys.exit(1)
    dst = os.path.join(VERIF, "seeded", name)
    shutil.rmtree(dst, ignore_errors=True)
    os.makedirs(dst)
    shutil.copy(patch, dst)
    for f in demos:
        if os.path.isfile(f):
            shutil.copy(f, dst)
    if os.path.exists(os.path.join(seeded, "notes.md")):
        shutil.copy(os.path.join(seeded, "notes.md"), dst)
    head = sh(["git", "-C", REPO, "rev-parse", "HEAD"]).stdout.strip()
    meta = {"name": name, "property": prop, "needs_to_manifest": needs, "base_commit": head,
            "author": "independent sub-agent (saw only the property text and a scratch worktree)",
            "confirmed_by": ran, "demo_cargo_features": os.environ.get("SEED_FEATURES", ""), "demonstration": [os.path.basename(f) for f in demos]}
    with open(os.path.join(dst, "meta.json"), "w") as f:
        json.dump(meta, f, indent=1)
    print("CONFIRMED ->", dst)


if __name__ == "__main__":
    main()
